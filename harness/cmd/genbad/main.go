// genbad writes the C09 corpus (the malformed stream): a Go module `bad` with one package per case.
// goderive is run on every case separately by vlib/runs.py (a failing case must not hide the others).
//
// Case families (field "family" in cases.json):
//
//	unsupported   every type-directed plugin x every unsupported constituent (chan, func, interface,
//	              unsafe.Pointer, unnamed non-comparable struct, pointer to unnamed struct, complex, …)
//	              x every position (top, pointer, slice, array, map key, map value, struct field, unnamed
//	              struct field, named type); quick tier: seeded sample covering every (plugin, constituent)
//	              and every (plugin, position) pair; thorough: all
//	unordered     min / max / sort over element types without an order
//	badargs       every function-consuming plugin: arguments dropped / added / replaced position by
//	              position by non-functions, variadic functions, functions of the wrong shape, untyped nil
//	twins         well-typed: two named types with the same underlying type handed to the same plugin
//	broken        syntactically / type-wise broken user files, empty package, only _test files,
//	              truncated / garbage / foreign derived.gen.go, undefined arguments
//	aliasclash    well-typed: imported packages whose names collide with another import's full path
//	unresolved    type-wise broken user file: an undeclared (misspelt) type in EVERY position of the argument
//	              type of a derive call — bare, pointer / slice / array / chan element, map KEY, map value,
//	              func parameter / result, unnamed struct field, named struct field, and nested two deep —
//	              for every type-directed plugin; goderive must either say which call it cannot generate
//	              (non-zero exit) or write a derived.gen.go that parses and mentions no "invalid type"
//	blankfields   structs whose fields are all (or partly) blank `_`, unnamed and named, by value and by pointer
//	              (F41: the printer used to panic "unindenting more than has been indented")
//	selfpointer   self-pointing named pointer types `type P *P`, `type Q **Q`, `type R struct{N *R2}; type R2 *R`
//	              (F42: used to expand the pointee for ever)
//	nilargs       every type-directed plugin with untyped nil in each argument position and in all positions
//	              (F43: `func deriveHash(this untyped nil)`); the function-consuming plugins get nil through badargs
//	              — for these three: never a crash or hang; exit 0 only with a package that type-checks;
//	              otherwise a message naming the call or type
//	xtest         well-typed, supported: a package directory that also holds an EXTERNAL test package
//	              (`package p_test`), without derive calls, with derive calls, together with in-package test
//	              files; must end with exit 0 and a package that still type-checks (derived.gen.go present,
//	              belonging to the package proper) or with a message
//	diagnostics   one call per refusal of a plugin's Add / Generate that the generic streams do not provoke (found
//	              by statement coverage of goderive under all checks): fmap / join / compose / do / traverse shape
//	              checks in their slice, string, chan, error and tuple forms, predicates that do not return bool,
//	              maps that are not sets for union / intersect, curried equal / compare of unsupported types,
//	              custom error types and methods of the wrong shape (Equal, Compare, Hash, DeepCopy, Error),
//	              interface-typed fields with Equal / Compare, private fields of external structs, command-line
//	              errors (-pluginprefix without '=', .go files mixed with packages, arguments after --), and
//	              I/O failures (derived.gen.go being a directory)
//	generics      derive calls whose argument type mentions a type parameter ([]T, map[K]V, *G[T], G[T] with a field of
//	              type-parameter type, chan T, func(T) T) inside generic functions and methods of generic types, and on
//	              fully instantiated generic types outside them (F67)
//	namedtypes    arguments of NAMED function / slice / map / chan types for every function-consuming and list plugin
//	              (`type Step func() (int, error)`; deriveDo(a, b Step) …): code that type-checks or a message, never a panic
//	spread        every plugin: the last argument spread with `...` (nominal slice argument, an extra slice, the only argument) (F92)
//	constants     untyped constants of every kind (bool, int, float, complex, rune, string) as arguments of the type-directed
//	              plugins, alone and mixed with typed values (F97)
//	multivalue    a multi-valued or a void call as an argument, in every argument position of every plugin (F98)
//	localtypes    types declared inside a function (struct, slice, map, pointer to them) as arguments, and the legitimate case of
//	              a local named type served by the function generated for a package-level type (F104)
//	chandirs      send-only / receive-only / bidirectional channels at every level for dup, the three channel forms of join,
//	              fmap over channels and pipeline (F93–F95)
//	probes        list / memo plugins over element types that are only comparable at run time (interfaces): refused, or — if
//	              accepted — the package's probe_test.go (dynamic values of non-comparable types) must pass under `go test`
//	nonascii      well-typed, supported: type names of 1-3 non-ASCII letters (2-, 3- and 4-byte letters), the
//	              same type name in two or three imported packages, with helper requests (or user functions)
//	              that already took prefix, prefix_ and every letter prefix of the name, so that the fresh-name
//	              search runs past the letters into its numbered fallback; must end with exit 0 and a
//	              derived.gen.go that parses and type-checks
//
// Second mode, used by the same check as the type-check oracle (fast, in-process, shared importer):
//
//	genbad -typecheck -root MODROOT pkgdir…   prints one JSON object per line:
//	{"pkg": dir, "parse": [...], "types": [...]}   (messages are "file: text")
package main

import (
	"encoding/json"
	"flag"
	"fmt"
	"go/ast"
	"go/importer"
	"go/parser"
	"go/token"
	"go/types"
	"math/rand"
	"os"
	"path/filepath"
	"regexp"
	"sort"
	"strings"
)

var (
	out       = flag.String("out", "", "output directory")
	seed      = flag.Int64("seed", 1, "PRNG seed")
	thorough  = flag.Bool("thorough", false, "thorough tier")
	repo      = flag.String("repo", "/repo", "goderive sources (main.go's plugin list is read)")
	typecheck = flag.Bool("typecheck", false, "type-check oracle mode")
	root      = flag.String("root", "", "module root for -typecheck")
	_         = flag.String("harness", "", "ignored")
	_         = flag.String("plugins", "", "ignored")
)

func must(err error) {
	if err != nil {
		fmt.Fprintln(os.Stderr, err)
		os.Exit(2)
	}
}

type caseT struct {
	Dir     string   `json:"dir"`     // package directory (relative to the module root)
	Family  string   `json:"family"`  // see above
	Plugin  string   `json:"plugin"`  // plugin the call is dispatched to ("" for broken-file cases)
	What    string   `json:"what"`    // human readable: constituent @ position / mutation
	Call    string   `json:"call"`    // name of the derive call
	Names   []string `json:"names"`   // a diagnostic should contain one of these (call name, type text)
	Unsupp  bool     `json:"unsupp"`  // the argument type is outside the plugin's documented set
	UserBad bool     `json:"userbad"` // the user's own files do not parse / type-check
	PreArgs  []string `json:"preargs"`  // goderive arguments before the package path
	PostArgs []string `json:"postargs"` // … and after it (PKGDIR is replaced by the case directory)
	Tag     string   `json:"tag"`     // sub-class used in the violation class id (cause rather than plugin)
	MustFail bool    `json:"mustfail"` // the run must NOT end with exit 0 (a call can never be generated for)
	MustOK  bool     `json:"mustok"`  // well-typed and inside the supported grammar: exit 0, parses, type-checks
	Wants   []string `json:"wants"`   // with exit 0, derived.gen.go holds each of these texts (what the unchanged tool writes for the case)
	Files   []string `json:"files"`
}

var cases []caseT
var stats = map[string]int{}

func add(c caseT, files map[string]string) {
	c.Dir = fmt.Sprintf("c%04d", len(cases))
	names := make([]string, 0, len(files))
	for n := range files {
		names = append(names, n)
	}
	sort.Strings(names)
	for _, n := range names {
		src := strings.ReplaceAll(files[n], "PKGDIR", c.Dir)
		p := filepath.Join(*out, c.Dir, n)
		must(os.MkdirAll(filepath.Dir(p), 0o755))
		must(os.WriteFile(p, []byte(src), 0o644))
	}
	c.Files = names
	cases = append(cases, c)
	stats["family_"+c.Family]++
	if c.Plugin != "" {
		stats["plugin_"+c.Plugin]++
	}
}

// pluginsOfMain reads the plugin list of main.go (import names under plugin/).
func pluginsOfMain() []string {
	b, err := os.ReadFile(filepath.Join(*repo, "main.go"))
	must(err)
	re := regexp.MustCompile(`(?m)^\s*([a-z]+)\.NewPlugin\(\),`)
	var ps []string
	for _, m := range re.FindAllStringSubmatch(string(b), -1) {
		ps = append(ps, m[1])
	}
	return ps
}

// prefixOf reads the default prefix from plugin/<name>/<name>.go.
func prefixOf(name string) string {
	b, err := os.ReadFile(filepath.Join(*repo, "plugin", name, name+".go"))
	must(err)
	re := regexp.MustCompile(`derive\.NewPlugin\("` + name + `",\s*"([A-Za-z]+)"`)
	m := re.FindStringSubmatch(string(b))
	if m == nil {
		must(fmt.Errorf("no derive.NewPlugin call found for %s", name))
	}
	return m[1]
}

// ---------------------------------------------------------------- family: unsupported

type typedPlugin struct {
	name string
	// wrap returns the body of a function with parameters declared in params using type expression t
	// (the type the plugin is applied to is built from t by arg)
	arg  func(t string) string // the plugin's main argument type given the element/value type t
	call func(fn string) (params func(at string) string, body string)
}

func typedPlugins() []typedPlugin {
	id := func(t string) string { return t }
	sl := func(t string) string { return "[]" + t }
	two := func(fn string) (func(string) string, string) {
		return func(at string) string { return "a, b " + at }, fn + "(a, b)"
	}
	one := func(fn string) (func(string) string, string) {
		return func(at string) string { return "a " + at }, fn + "(a)"
	}
	elem := func(fn string) (func(string) string, string) {
		return func(at string) string { return "a " + at }, fn + "(a, a[0])"
	}
	return []typedPlugin{
		{"equal", id, two}, {"compare", id, two}, {"hash", id, one}, {"deepcopy", id, two},
		{"clone", id, one}, {"gostring", id, one},
		{"keys", func(t string) string { return "map[string]" + t }, one},
		{"sort", sl, one}, {"set", sl, one}, {"min", sl, elem}, {"max", sl, elem}, {"contains", sl, elem},
		{"intersect", sl, two}, {"union", sl, two}, {"unique", sl, one},
	}
}

type badT struct {
	text       string // Go type expression
	comparable bool   // usable as a map key
	diag       []string
}

var bads = []badT{
	{"chan int", true, []string{"chan int", "types.Chan"}},
	{"<-chan string", true, []string{"<-chan string", "types.Chan"}},
	{"func()", false, []string{"func()", "types.Signature"}},
	{"func(int) string", false, []string{"func(int) string", "func(", "types.Signature"}},
	{"interface{}", true, []string{"interface{}", "interface {}", "any", "types.Interface"}},
	{"error", true, []string{"error", "interface{Error() string}", "types.Interface"}},
	{"unsafe.Pointer", true, []string{"unsafe.Pointer", "Pointer"}},
	{"struct{ F []int }", false, []string{"struct{F []int}", "struct", "types.Struct"}},
	{"*struct{ F []int }", true, []string{"*struct{F []int}", "struct", "types.Struct"}},
	{"complex128", true, []string{"complex128"}},
	{"uintptr", true, []string{"uintptr"}},
	{"[0]func()", false, []string{"[0]func()", "func()", "types.Signature"}},
}

type posT struct {
	name    string
	needCmp bool
	build   func(x string) (typ string, decls string)
}

var positions = []posT{
	{"top", false, func(x string) (string, string) { return x, "" }},
	{"pointer", false, func(x string) (string, string) { return "*" + x, "" }},
	{"slice", false, func(x string) (string, string) { return "[]" + x, "" }},
	{"array", false, func(x string) (string, string) { return "[2]" + x, "" }},
	{"mapvalue", false, func(x string) (string, string) { return "map[string]" + x, "" }},
	{"mapkey", true, func(x string) (string, string) { return "map[" + x + "]int", "" }},
	{"field", false, func(x string) (string, string) {
		return "*N", "type N struct {\n\tA int\n\tF " + x + "\n\tB string\n}\n"
	}},
	{"nestedfield", false, func(x string) (string, string) {
		return "*N", "type N struct {\n\tA int\n\tIn *Inner\n}\n\ntype Inner struct {\n\tS []" + x + "\n}\n"
	}},
	{"unnamedstructfield", false, func(x string) (string, string) { return "struct {\n\tA int\n\tF " + x + "\n}", "" }},
	{"named", false, func(x string) (string, string) { return "N", "type N " + x + "\n" }},
	{"namedstructvalue", false, func(x string) (string, string) { return "N", "type N struct {\n\tA int\n\tF " + x + "\n}\n" }},
	{"ptrunnamedstruct", false, func(x string) (string, string) { return "*struct {\n\tA int\n\tF " + x + "\n}", "" }},
	{"sliceofnamedstruct", false, func(x string) (string, string) { return "[]N", "type N struct {\n\tF " + x + "\n}\n" }},
	{"mapofnamedstruct", false, func(x string) (string, string) { return "map[string]N", "type N struct {\n\tF " + x + "\n}\n" }},
	{"arrayofptrstruct", false, func(x string) (string, string) { return "[2]*N", "type N struct {\n\tF " + x + "\n}\n" }},
	{"mapvaluearray", false, func(x string) (string, string) { return "map[string][2]" + x, "" }},
	{"mapvaluearrayofstruct", false, func(x string) (string, string) { return "map[string][2]N", "type N struct {\n\tF " + x + "\n}\n" }},
	{"embeddedstruct", false, func(x string) (string, string) {
		return "*N", "type N struct {\n\tInner\n\tA int\n}\n\ntype Inner struct {\n\tF " + x + "\n}\n"
	}},
}

func header(pkg string, needUnsafe bool) string {
	s := "package " + pkg + "\n\n"
	if needUnsafe {
		s += "import \"unsafe\"\n\nvar _ unsafe.Pointer\n\n"
	}
	return s
}

func genUnsupported(r *rand.Rand, prefixes map[string]string) {
	tps := typedPlugins()
	type key struct{ p, b, pos int }
	var all []key
	for pi := range tps {
		for bi, b := range bads {
			for qi, q := range positions {
				if q.needCmp && !b.comparable {
					continue
				}
				all = append(all, key{pi, bi, qi})
			}
		}
	}
	chosen := map[key]bool{}
	if *thorough {
		for _, k := range all {
			chosen[k] = true
		}
	} else {
		// every (plugin, constituent) at the top and at one random position; every (plugin, position) with
		// one random constituent; plus a 15% sample of the rest
		for pi := range tps {
			for bi, b := range bads {
				chosen[key{pi, bi, 0}] = true
				for {
					qi := r.Intn(len(positions))
					if positions[qi].needCmp && !b.comparable {
						continue
					}
					chosen[key{pi, bi, qi}] = true
					break
				}
			}
			for qi, q := range positions {
				chosen[key{pi, 0, qi}] = true // chan int is rejected by every plugin: every (plugin, position) refusal path is taken
				for {
					bi := r.Intn(len(bads))
					if q.needCmp && !bads[bi].comparable {
						continue
					}
					chosen[key{pi, bi, qi}] = true
					break
				}
			}
		}
		for _, k := range all {
			if r.Intn(100) < 15 {
				chosen[k] = true
			}
		}
	}
	for _, k := range all {
		if !chosen[k] {
			continue
		}
		tp, b, q := tps[k.p], bads[k.b], positions[k.pos]
		typ, decls := q.build(b.text)
		at := tp.arg(typ)
		fn := prefixes[tp.name] + "Bad"
		params, body := tp.call(fn)
		src := header("PKGDIR", strings.Contains(b.text, "unsafe")) + decls + "\nfunc Use(" + params(at) + ") {\n\t" + body + "\n}\n"
		names := append([]string{fn, "N", "Inner"}, b.diag...)
		add(caseT{Family: "unsupported", Plugin: tp.name, What: b.text + " @ " + q.name, Call: fn, Names: names, Unsupp: true},
			map[string]string{"u.go": src})
	}
	stats["unsupported_space"] = len(all)
}

func genUnordered(prefixes map[string]string) {
	elems := []string{"bool", "struct{ A int }", "complex64", "[]int", "map[string]int", "*int", "[2]bool", "func()", "chan int", "interface{}"}
	for _, pl := range []string{"min", "max", "sort"} {
		for _, e := range elems {
			fn := prefixes[pl] + "Bad"
			body := fn + "(a)"
			if pl != "sort" {
				body = fn + "(a, a[0])"
			}
			src := "package PKGDIR\n\nfunc Use(a []" + e + ") {\n\t" + body + "\n}\n"
			add(caseT{Family: "unordered", Plugin: pl, What: "[]" + e, Call: fn, Names: []string{fn, e, strings.ReplaceAll(strings.ReplaceAll(e, "{ ", "{"), " }", "}")},
				Unsupp: e != "bool" && e != "*int" && e != "struct{ A int }" && e != "[]int" && e != "map[string]int" && e != "[2]bool" && e != "complex64"},
				map[string]string{"u.go": src})
		}
	}
}

// ---------------------------------------------------------------- family: badargs

type fplugin struct {
	name  string
	decls string   // package-level declarations the arguments refer to
	args  []string // a nominally valid argument list
}

// argTypes: the go/types spelling of the types of the nominal arguments (what a diagnostic may quote)
var argTypes = map[string]string{
	"f": "func(", "g": "func(", "pred": "func(i int) bool", "xs": "[]int", "xss": "[][]int", "e": "error",
	"a": "int", "b": "string", "c": "<-chan int", "\"s\"": "string",
}

var fplugins = []fplugin{
	{"fmap", "func f(i int) string { return \"\" }\nvar xs []int\n", []string{"f", "xs"}},
	{"join", "var xss [][]int\n", []string{"xss"}},
	{"filter", "func pred(i int) bool { return true }\nvar xs []int\n", []string{"pred", "xs"}},
	{"takewhile", "func pred(i int) bool { return true }\nvar xs []int\n", []string{"pred", "xs"}},
	{"all", "func pred(i int) bool { return true }\nvar xs []int\n", []string{"pred", "xs"}},
	{"any", "func pred(i int) bool { return true }\nvar xs []int\n", []string{"pred", "xs"}},
	{"curry", "func f(a int, b string) bool { return true }\n", []string{"f"}},
	{"uncurry", "func f(a int) func(b string) bool { return nil }\n", []string{"f"}},
	{"flip", "func f(a int, b string) bool { return true }\n", []string{"f"}},
	{"apply", "func f(a int, b string) bool { return true }\n", []string{"f", "\"s\""}},
	{"toerror", "func f(a int) (string, bool) { return \"\", true }\nvar e error\n", []string{"e", "f"}},
	{"tuple", "var a int\nvar b string\n", []string{"a", "b"}},
	{"compose", "func f(a int) (string, error) { return \"\", nil }\nfunc g(s string) (float64, error) { return 0, nil }\n", []string{"f", "g"}},
	{"do", "func f() (string, error) { return \"\", nil }\nfunc g() (int, error) { return 0, nil }\n", []string{"f", "g"}},
	{"pipeline", "func f(a int) <-chan string { return nil }\nfunc g(s string) <-chan float64 { return nil }\n", []string{"f", "g"}},
	{"dup", "var c <-chan int\n", []string{"c"}},
	{"mem", "func f(a int, b string) bool { return true }\n", []string{"f"}},
	{"traverse", "func f(i int) (string, error) { return \"\", nil }\nvar xs []int\n", []string{"f", "xs"}},
}

var badExprs = []struct{ expr, what, typ string }{
	{"5", "untyped int constant", "int"},
	{"\"s\"", "string constant", "string"},
	{"nil", "untyped nil", "nil"},
	{"[]int{1}", "slice", "[]int"},
	{"map[string]int{}", "map", "map[string]int"},
	{"make(chan int)", "chan", "chan int"},
	{"func() {}", "func without params and results", "func()"},
	{"func(xs ...int) int { return 0 }", "variadic func", "func(xs ...int) int"},
	{"func(a int, rest ...string) bool { return false }", "variadic func with a leading param", "func(a int, rest ...string) bool"},
	{"func(a int, rest ...string) (string, error) { return \"\", nil }", "variadic func returning error", "func(a int, rest ...string) (string, error)"},
	{"struct{}{}", "empty struct", "struct{}"},
	{"unsafe.Pointer(nil)", "unsafe.Pointer", "unsafe.Pointer"},
	{"interface{}(nil)", "interface value", "interface{}"},
	{"func(int, string) bool { return true }", "func with unnamed params", "func(int, string) bool"},
	{"func(a int) (int, int, int) { return 0, 0, 0 }", "func with three results", "func(a int) (int, int, int)"},
	{"func(a, b, c, d int) {}", "func with four params and no result", "func(a int, b int, c int, d int)"},
	{"[][]chan int{}", "slice of slice of chan", "[][]chan int"},
	{"[]string{}", "slice of string", "[]string"},
	{"new(int)", "pointer", "*int"},
	{"func(xs ...int) bool { return true }", "variadic predicate", "func(xs ...int) bool"},
	{"func(xs ...int) string { return \"\" }", "variadic one-parameter func returning string", "func(xs ...int) string"},
	{"func(xs ...int) (string, error) { return \"\", nil }", "variadic one-parameter func returning (string, error)", "func(xs ...int) (string, error)"},
	{"func(xs ...string) <-chan float64 { return nil }", "variadic one-parameter func returning a chan", "func(xs ...string) <-chan float64"},
}

func genBadArgs(prefixes map[string]string) {
	for _, fp := range fplugins {
		pre, ok := prefixes[fp.name]
		if !ok {
			continue
		}
		fn := pre + "Bad"
		emit := func(what string, args []string, unsupp bool, typs ...string) {
			src := "package PKGDIR\n\nimport \"unsafe\"\n\nvar _ unsafe.Pointer\n\n" + fp.decls + "\nfunc Use() {\n\t" + fn + "(" + strings.Join(args, ", ") + ")\n}\n"
			add(caseT{Family: "badargs", Plugin: fp.name, What: what, Call: fn, Names: append([]string{fn}, typs...), Unsupp: unsupp},
				map[string]string{"u.go": src})
		}
		var orig []string
		for _, a := range fp.args {
			orig = append(orig, argTypes[a])
		}
		emit("no arguments", nil, true)
		if len(fp.args) > 1 {
			emit("last argument dropped", fp.args[:len(fp.args)-1], true, orig...)
		}
		emit("extra argument", append(append([]string{}, fp.args...), "0"), true, orig...)
		emit("arguments reversed", reverse(fp.args), len(fp.args) > 1, orig...)
		for i := range fp.args {
			for _, be := range badExprs {
				a := append([]string{}, fp.args...)
				a[i] = be.expr
				emit(fmt.Sprintf("argument %d replaced by %s", i, be.what), a, true, be.typ)
			}
		}
	}
}

func reverse(xs []string) []string {
	o := make([]string, len(xs))
	for i, x := range xs {
		o[len(xs)-1-i] = x
	}
	return o
}

// ---------------------------------------------------------------- family: twins

func genTwins(prefixes map[string]string) {
	unders := []string{"[]int", "map[string]int", "struct {\n\tA int\n\tB []string\n}", "*int", "[2]int", "[]string", "map[int][]int", "[]*int"}
	for _, tp := range typedPlugins() {
		for _, u := range unders {
			if tp.name == "keys" && !strings.HasPrefix(u, "map[") {
				continue
			}
			isList := tp.arg("X") == "[]X"
			if isList && tp.name != "sort" && !(u == "[]int" || u == "[]string" || u == "*int" || u == "[2]int") {
				continue
			}
			for _, third := range []bool{false, true} {
				var sb strings.Builder
				sb.WriteString("package PKGDIR\n\n")
				var t1, t2, t3 string
				if tp.name == "keys" {
					// the plugin's argument itself is the twin
					sb.WriteString("type N1 " + u + "\n\ntype N2 " + u + "\n\n")
					t1, t2, t3 = "N1", "N2", u
				} else {
					sb.WriteString("type N1 " + u + "\n\ntype N2 " + u + "\n\n")
					t1, t2, t3 = tp.arg("N1"), tp.arg("N2"), tp.arg(u)
				}
				fn := prefixes[tp.name]
				for i, t := range []string{t1, t2, t3} {
					if i == 2 && !third {
						break
					}
					name := fmt.Sprintf("%sT%d", fn, i+1)
					params, body := tp.call(name)
					fmt.Fprintf(&sb, "func Use%d(%s) {\n\t%s\n}\n\n", i+1, params(t), body)
				}
				what := "two named types over " + strings.ReplaceAll(u, "\n", " ")
				if third {
					what += " and the unnamed type"
				}
				add(caseT{Family: "twins", Plugin: tp.name, What: what, Call: fn + "T1", Names: []string{fn + "T1", fn + "T2", fn + "T3", "N1", "N2", "struct{A int; B []string}"}},
					map[string]string{"u.go": sb.String()})
			}
		}
	}
	// the same through helper requests: compare / hash / equal of a struct whose fields are twins
	for _, pl := range []string{"equal", "compare", "hash", "deepcopy", "clone", "gostring"} {
		for _, u := range []string{"[]int", "map[string]int", "map[string][]int", "*[]int"} {
			fn := prefixes[pl] + "S"
			var tp typedPlugin
			for _, t := range typedPlugins() {
				if t.name == pl {
					tp = t
				}
			}
			params, body := tp.call(fn)
			src := "package PKGDIR\n\ntype N1 " + u + "\n\ntype N2 " + u + "\n\ntype S struct {\n\tA N1\n\tB N2\n\tC " + u + "\n\tD N2\n\tE N1\n}\n\nfunc Use(" + params("*S") + ") {\n\t" + body + "\n}\n"
			add(caseT{Family: "twins", Plugin: pl, What: "struct with twin-typed fields over " + u, Call: fn, Names: []string{fn, "N1", "N2"}},
				map[string]string{"u.go": src})
		}
	}
}

// imported named type whose underlying type is an unnamed type that already has a helper: nameOf serves it by
// assignability, but has registered the import of its package on the way (found with the nonascii family)
func genImportedTwin(prefixes map[string]string) {
	for _, tp := range typedPlugins() {
		switch tp.name {
		case "equal", "compare", "hash":
		default:
			continue
		}
		fn := prefixes[tp.name]
		params, body := tp.call(fn)
		src := "package PKGDIR\n\nimport p3 \"bad/PKGDIR/p3\"\n\ntype S struct {\n\tL []string\n\tF p3.T\n}\n\nfunc Use(" + params("*S") + ") {\n\t" + body + "\n}\n"
		add(caseT{Family: "twins", Plugin: tp.name, What: "imported named type over an unnamed type that already has a helper", Call: fn, Names: []string{fn, "p3"}},
			map[string]string{"u.go": src, "p3/p3.go": "package p3\n\ntype T []string\n"})
	}
}

// ---------------------------------------------------------------- family: broken

const goodUser = `package PKGDIR

type S struct {
	A int
	B []string
	M map[string]*S
}

func Eq(a, b *S) bool { return deriveEqual(a, b) }

func Cmp(a, b *S) int { return deriveCompare(a, b) }
`

const goodDerivedHead = `// Code generated by goderive DO NOT EDIT.

package PKGDIR

// deriveEqual returns whether this and that are equal.
func deriveEqual(this, that *S) bool {
	return (this == nil && that == nil) ||
		this != nil && that != nil &&
			this.A == that.A &&
			deriveEqual_(this.B, that.B) &&
`

func genBroken() {
	b := func(what string, userbad bool, files map[string]string) {
		add(caseT{Family: "broken", What: what, Call: "deriveEqual", Names: []string{"deriveEqual", "deriveCompare", ".go", "PKGDIR", "package"}, UserBad: userbad}, files)
	}
	b("control: valid package", false, map[string]string{"u.go": goodUser})
	// syntactically broken files that hold a call to rename, under the renaming flags (F61: refused with a message or
	// rewritten with nothing lost; never a crash, never a derived.gen.go that does not parse)
	for _, e := range []struct{ what, text string }{
		{"bad expression", "\nfunc Broken1() int { return 1 + }\n"},
		{"bad statement", "\nfunc Broken2() {\n\tif {\n\t}\n}\n"},
		{"bad declaration", "\nfunc ( {\n"},
		{"unterminated string", "\nvar s = \"never closed\n"},
		{"illegal character", "\nvar q = 1 # 2\n"},
	} {
		for _, fl := range [][]string{{"-dedup"}, {"-autoname"}, {"-autoname", "-dedup"}} {
			add(caseT{Family: "broken", What: "syntax error (" + e.what + ") next to a duplicate and a conflict, " + strings.Join(fl, " "), Call: "deriveEqual",
				Names: []string{"deriveEqual", "u.go", "parse"}, UserBad: true, PreArgs: fl},
				map[string]string{"u.go": goodUser + e.text + "\nfunc EqAgain(a, b *S) bool { return deriveEqualAgain(a, b) }\n\nfunc EqInts(a, b []int) bool { return deriveEqual(a, b) }\n"})
		}
	}
	add(caseT{Family: "broken", What: "conflict without -autoname (one name, two argument types)", Call: "deriveEqual", Names: []string{"deriveEqual", "conflict"}, Unsupp: true},
		map[string]string{"u.go": goodUser + "\nfunc EqInts(a, b []int) bool { return deriveEqual(a, b) }\n"})
	add(caseT{Family: "broken", What: "duplicate without -dedup (two names, one argument type)", Call: "deriveEqual", Names: []string{"deriveEqual", "deriveEqualAgain", "ambig"}, Unsupp: true},
		map[string]string{"u.go": goodUser + "\nfunc EqAgain(a, b *S) bool { return deriveEqualAgain(a, b) }\n"})
	b("syntax error in a second user file (missing brace)", true, map[string]string{"u.go": goodUser, "v.go": "package PKGDIR\n\nfunc Broken() {\n\tif true {\n\t\treturn\n}\n"})
	b("syntax error in the file holding the derive call", true, map[string]string{"u.go": goodUser + "\nfunc Broken( {\n"})
	b("file that is not Go at all", true, map[string]string{"u.go": goodUser, "v.go": "\x00\x01\x02 this is not go \xff\xfe\n"})
	b("type error in a second user file", true, map[string]string{"u.go": goodUser, "v.go": "package PKGDIR\n\nfunc Broken() int {\n\tvar s string = 5\n\treturn undefinedVar + s\n}\n"})
	b("type error in the arguments of the derive call", true, map[string]string{"u.go": "package PKGDIR\n\nfunc Eq(a int) bool { return deriveEqual(a, undefinedVar) }\n"})
	b("derive call with an argument of an undeclared type", true, map[string]string{"u.go": "package PKGDIR\n\nfunc Eq(a, b *Missing) bool { return deriveEqual(a, b) }\n"})
	b("wrong package clause in a second file", true, map[string]string{"u.go": goodUser, "v.go": "package other\n\nfunc X() {}\n"})
	b("import of a package that does not exist", true, map[string]string{"u.go": "package PKGDIR\n\nimport \"does/not/exist\"\n\nfunc Eq(a, b *exist.T) bool { return deriveEqual(a, b) }\n"})
	b("import cycle with itself", true, map[string]string{"u.go": "package PKGDIR\n\nimport self \"bad/PKGDIR\"\n\nvar _ = self.X\n\nfunc Eq(a, b []int) bool { return deriveEqual(a, b) }\n"})
	b("empty package directory (only a text file)", true, map[string]string{"README.txt": "nothing here\n"})
	b("package with only _test files", false, map[string]string{"u_test.go": "package PKGDIR\n\nimport \"testing\"\n\nfunc TestX(t *testing.T) {\n\tif !deriveEqual([]int{1}, []int{1}) {\n\t\tt.Fatal()\n\t}\n}\n"})
	b("package without derive calls", false, map[string]string{"u.go": "package PKGDIR\n\nfunc X() int { return 1 }\n"})
	b("package without derive calls and a stale derived.gen.go", false, map[string]string{"u.go": "package PKGDIR\n\nfunc X() int { return 1 }\n", "derived.gen.go": "// Code generated by goderive DO NOT EDIT.\n\npackage PKGDIR\n\nfunc deriveOld() {}\n"})
	// the package had derive calls once (W-C09-A): the file generated for them mentions what is gone now, and must go as well
	staleSettings := "// Code generated by goderive DO NOT EDIT.\n\npackage PKGDIR\n\n// deriveEqual returns whether this and that are equal.\nfunc deriveEqual(this, that *Settings) bool {\n\treturn (this == nil && that == nil) ||\n\t\tthis != nil && that != nil &&\n\t\t\tthis.Name == that.Name &&\n\t\t\tthis.Tags == that.Tags\n}\n"
	for _, e := range []struct{ what, user string }{
		{"the type is gone", "package PKGDIR\n\nfunc Version() int { return 2 }\n"},
		{"a field is gone and the call replaced by ==", "package PKGDIR\n\ntype Settings struct{ Name string }\n\nfunc Same(a, b *Settings) bool { return *a == *b }\n"},
		{"the user now has a function of the generated name", "package PKGDIR\n\ntype Settings struct{ Name, Tags string }\n\nfunc deriveEqual(a, b *Settings) bool { return *a == *b }\n\nfunc Same(a, b *Settings) bool { return deriveEqual(a, b) }\n"},
	} {
		add(caseT{Family: "broken", What: "package without derive calls any more, derived.gen.go of an earlier version: " + e.what, Call: "deriveEqual",
			Names: []string{"deriveEqual", "Settings", "derived.gen.go"}, MustOK: true}, map[string]string{"u.go": e.user, "derived.gen.go": staleSettings})
	}
	b("truncated derived.gen.go (cut inside an expression)", false, map[string]string{"u.go": goodUser, "derived.gen.go": goodDerivedHead})
	b("empty derived.gen.go", false, map[string]string{"u.go": goodUser, "derived.gen.go": ""})
	b("garbage derived.gen.go", false, map[string]string{"u.go": goodUser, "derived.gen.go": "\x00\x7fELF\x01\x02garbage{{{{\n"})
	b("derived.gen.go with a foreign package clause", false, map[string]string{"u.go": goodUser, "derived.gen.go": "package somethingelse\n\nfunc deriveEqual(a, b int) bool { return a == b }\n"})
	b("derived.gen.go with stale signatures", false, map[string]string{"u.go": goodUser, "derived.gen.go": "// Code generated by goderive DO NOT EDIT.\n\npackage PKGDIR\n\nfunc deriveEqual(this, that int) bool { return this == that }\n\nfunc deriveCompare(this, that string) int { return 0 }\n"})
	b("derived.gen.go cut after the package clause", false, map[string]string{"u.go": goodUser, "derived.gen.go": "// Code generated by goderive DO NOT EDIT.\n\npackage PKGDIR\n"})
	b("derive call on the result of an undefined function", true, map[string]string{"u.go": "package PKGDIR\n\nfunc Eq(a []int) bool { return deriveEqual(a, mystery(a)) }\n"})
	b("derive call nested in a derive call of unknown plugin", true, map[string]string{"u.go": "package PKGDIR\n\nfunc Eq(a []int) bool { return deriveEqual(a, deriveNoSuchPlugin(a)) }\n"})
	b("call with a derive prefix that matches no arity", true, map[string]string{"u.go": "package PKGDIR\n\nfunc Eq(a []int) bool { return deriveEqual() }\n"})
	b("method call and qualified call that look like derive calls", false, map[string]string{"u.go": "package PKGDIR\n\ntype T struct{}\n\nfunc (T) deriveEqual(a, b int) bool { return a == b }\n\nfunc Use(t T) bool { return t.deriveEqual(1, 2) }\n"})
	b("user-defined function with a derive prefix", false, map[string]string{"u.go": "package PKGDIR\n\nfunc deriveEqual(a, b int) bool { return a == b }\n\nfunc Use() bool { return deriveEqual(1, 2) }\n"})
	b("recursive type through a slice and a map", false, map[string]string{"u.go": "package PKGDIR\n\ntype T struct {\n\tKids []T\n\tM map[string]T\n\tP *T\n}\n\nfunc Eq(a, b *T) bool { return deriveEqual(a, b) }\n\nfunc H(a *T) uint64 { return deriveHash(a) }\n\nfunc C(a *T) *T { return deriveClone(a) }\n"})
	b("very deep pointer nesting", false, map[string]string{"u.go": "package PKGDIR\n\nfunc Eq(a, b ********int) bool { return deriveEqual(a, b) }\n"})
	b("generic type instance as argument", false, map[string]string{"u.go": "package PKGDIR\n\ntype G[T any] struct {\n\tX T\n\tL []T\n}\n\nfunc Eq(a, b *G[int]) bool { return deriveEqual(a, b) }\n"})
	b("type parameter as argument", false, map[string]string{"u.go": "package PKGDIR\n\nfunc Eq[T any](a, b []T) bool { return deriveEqual(a, b) }\n"})
	b("type alias as argument", false, map[string]string{"u.go": "package PKGDIR\n\ntype A = []int\n\ntype B = struct {\n\tX A\n}\n\nfunc Eq(a, b B) bool { return deriveEqual(a, b) }\n\nfunc H(a A) uint64 { return deriveHash(a) }\n"})
}

// ---------------------------------------------------------------- family: aliasclash

func genAliasClash() {
	// exp_a_b.T first (alias exp_a_b... the package NAME equals the underscored full path of a/b), then
	// x/b.T (alias b), then a/b.T (alias b taken -> full path alias bad_cNNNN_a_b)
	mk := func(what string, main string, extra map[string]string) {
		files := map[string]string{"u.go": main}
		for k, v := range extra {
			files[k] = v
		}
		add(caseT{Family: "aliasclash", Plugin: "equal", What: what, Call: "deriveEqual", Names: []string{"deriveEqual", "import", "fullpath", "bad/"}}, files)
	}
	mk("two imports named b (alias falls back to the full path)",
		"package PKGDIR\n\nimport (\n\tab \"bad/PKGDIR/a/b\"\n\txb \"bad/PKGDIR/x/b\"\n)\n\ntype S struct {\n\tX xb.T\n\tA ab.T\n}\n\nfunc Eq(a, b *S) bool { return deriveEqual(a, b) }\n",
		map[string]string{"a/b/b.go": "package b\n\ntype T struct{ N []int }\n", "x/b/b.go": "package b\n\ntype T struct{ M []string }\n"})
	mk("a package NAMED like the underscored full path of another import",
		"package PKGDIR\n\nimport (\n\tab \"bad/PKGDIR/a/b\"\n\tclash \"bad/PKGDIR/z\"\n\txb \"bad/PKGDIR/x/b\"\n)\n\ntype S struct {\n\tC clash.T\n\tX xb.T\n\tA ab.T\n}\n\nfunc Eq(a, b *S) bool { return deriveEqual(a, b) }\n",
		map[string]string{"a/b/b.go": "package b\n\ntype T struct{ N []int }\n", "x/b/b.go": "package b\n\ntype T struct{ M []string }\n",
			"z/z.go": "package bad_PKGDIR_a_b\n\ntype T struct{ Q []bool }\n"})
	mk("two different import paths with the same underscored full path, both needing it",
		"package PKGDIR\n\nimport (\n\tp1 \"bad/PKGDIR/a/b_c/d\"\n\tp2 \"bad/PKGDIR/a_b/c/d\"\n\tp0 \"bad/PKGDIR/d\"\n)\n\ntype S struct {\n\tZ p0.T\n\tX p1.T\n\tY p2.T\n}\n\nfunc Eq(a, b *S) bool { return deriveEqual(a, b) }\n",
		map[string]string{"d/d.go": "package d\n\ntype T struct{ N []int }\n", "a/b_c/d/d.go": "package d\n\ntype T struct{ M []string }\n", "a_b/c/d/d.go": "package d\n\ntype T struct{ Q []bool }\n"})
	mk("imported package whose name differs from its last path element",
		"package PKGDIR\n\nimport (\n\todd \"bad/PKGDIR/v2\"\n\tstrs \"strings\"\n)\n\ntype S struct {\n\tX odd.T\n\tB *strs.Builder\n}\n\nfunc Eq(a, b *S) bool { return deriveEqual(a, b) }\n",
		map[string]string{"v2/odd.go": "package strings\n\ntype T struct{ N []int }\n"})
}

// ---------------------------------------------------------------- family: unresolved

func genUnresolved(prefixes map[string]string) {
	positions := []struct{ name, typ string }{
		{"bare", "ID"}, {"pointer", "*ID"}, {"slice", "[]ID"}, {"array", "[3]ID"}, {"chan", "chan ID"},
		{"map key", "map[ID]int"}, {"map value", "map[string]ID"}, {"map key and value", "map[ID]ID"},
		{"func parameter", "func(ID) int"}, {"func result", "func(int) ID"},
		{"unnamed struct field", "struct {\n\tA int\n\tF ID\n}"}, {"pointer to unnamed struct field", "*struct {\n\tF ID\n}"},
		{"named struct field", "*N"}, {"named map type with the key", "NM"},
		{"slice of map key", "[]map[ID]int"}, {"pointer to map key", "*map[ID]int"}, {"map value map key", "map[string]map[ID]int"},
		{"map key, slice value", "map[ID][]string"}, {"pointer to slice", "*[]ID"}, {"slice of slice", "[][]ID"},
		{"map value slice", "map[string][]ID"}, {"array of map key", "[2]map[ID]bool"}, {"map key in struct field", "struct {\n\tM map[ID]int\n}"},
		{"chan of map key", "chan map[ID]int"}, {"func returning map with the key", "func() map[ID]int"},
		{"qualified, package not imported", "map[missing.ID]int"},
	}
	for _, tp := range typedPlugins() {
		for _, q := range positions {
			fn := prefixes[tp.name] + "Bad"
			at := tp.arg(q.typ)
			if tp.name == "keys" {
				at = q.typ // the map itself is the interesting argument
			}
			params, body := tp.call(fn)
			decls := "type N struct {\n\tA int\n\tF map[ID]string\n}\n\ntype NM map[ID]int\n\n"
			src := "package PKGDIR\n\n// ID is not declared anywhere (misspelt type name).\n\n" + decls + "func Use(" + params(at) + ") {\n\t" + body + "\n}\n"
			tag := ""
			if q.typ == "*N" || q.typ == "NM" {
				tag = "unresolved-inside-named-type"
			}
			add(caseT{Family: "unresolved", Plugin: tp.name, What: "undeclared type as " + q.name + ": " + strings.ReplaceAll(strings.ReplaceAll(at, "\n", " "), "\t", ""),
				Call: fn, Names: []string{fn, "ID"}, UserBad: true, Tag: tag}, map[string]string{"u.go": src})
		}
	}
	// package-level variables and the multi-pass flow around them
	for i, body := range []string{
		"var index map[ID]int\n\nfunc Use() int { return len(deriveKeys(index)) }\n",
		"var index map[ID]int\n\nfunc Use() int { return len(deriveSort(deriveKeys(index))) }\n",
		"var index map[ID]int\n\nvar good map[string]int\n\nfunc Use() int { return len(deriveKeys(index)) + len(deriveSort(deriveKeysGood(good))) }\n",
		"var a, b *map[ID][]int\n\nfunc Use() bool { return deriveEqual(a, b) }\n",
		"var a []map[ID]int\n\nfunc Use() uint64 { return deriveHash(a) }\n",
		"type T struct {\n\tM map[ID]int\n}\n\nfunc Use(a, b *T) bool { return deriveEqual(a, b) }\n",
		"import \"fmt\"\n\nvar _ = fmt.Sprint\n\nfunc Use() bool { return deriveEqual(fmt, fmt) }\n",
		"func Use() bool { return deriveEqual(_, _) }\n",
		"func mk() (ID, error) { return nil, nil }\n\nfunc Use() { deriveJoin(mk()) }\n",
		"func mk() (func() (ID, error), error) { return nil, nil }\n\nfunc Use() { deriveJoin(mk()) }\n",
		"func mk() (int, ID) { return 0, nil }\n\nfunc Use() { deriveTuple(mk()) }\n",
		"func Use() uint64 { return deriveHash(int) }\n",
	} {
		tag := ""
		if strings.HasPrefix(body, "type T struct") {
			tag = "unresolved-inside-named-type"
		}
		add(caseT{Family: "unresolved", What: fmt.Sprintf("package-level variable / flow %d", i), Call: "deriveKeys",
			Names: []string{"deriveKeys", "deriveSort", "deriveEqual", "deriveHash", "deriveJoin", "deriveTuple", "ID"}, UserBad: true, Tag: tag},
			map[string]string{"u.go": "package PKGDIR\n\n" + body})
	}
}

// ---------------------------------------------------------------- families: blankfields, selfpointer, nilargs

func pluginByName(name string) typedPlugin {
	for _, t := range typedPlugins() {
		if t.name == name {
			return t
		}
	}
	panic("no plugin " + name)
}

func genBlankFields(prefixes map[string]string) {
	shapes := []struct{ what, decls, typ string }{
		{"unnamed struct with one blank field, by value", "", "struct{ _ []int }"},
		{"unnamed struct with one blank field, by pointer", "", "*struct{ _ []int }"},
		{"unnamed struct with two blank fields", "", "struct {\n\t_ int\n\t_ string\n}"},
		{"unnamed struct with a blank and a normal field", "", "struct {\n\t_ []int\n\tA string\n}"},
		{"named struct with one blank field, by value", "type N struct{ _ []int }\n\n", "N"},
		{"named struct with one blank field, by pointer", "type N struct{ _ []int }\n\n", "*N"},
		{"named struct with blank and normal fields, by pointer", "type N struct {\n\t_ []int\n\tA map[string]int\n\t_ *N\n}\n\n", "*N"},
		{"slice of unnamed blank-field structs", "", "[]struct{ _ []int }"},
		{"field of blank-field struct type", "type N struct {\n\tIn struct{ _ []int }\n\tP *struct{ _ int }\n}\n\n", "*N"},
		{"empty struct", "", "struct{}"},
	}
	for _, pl := range []string{"equal", "compare", "hash", "gostring", "deepcopy", "clone"} {
		tp := pluginByName(pl)
		for _, sh := range shapes {
			fn := prefixes[pl] + "Blank"
			params, body := tp.call(fn)
			src := "package PKGDIR\n\n" + sh.decls + "func Use(" + params(sh.typ) + ") {\n\t" + body + "\n}\n"
			add(caseT{Family: "blankfields", Plugin: pl, What: sh.what, Call: fn, Names: []string{fn, "struct", "N"}, Unsupp: true},
				map[string]string{"u.go": src})
		}
	}
}

func genSelfPointer(prefixes map[string]string) {
	shapes := []struct{ what, decls, typ string }{
		{"type P *P", "type P *P\n\n", "P"},
		{"type P *P, by pointer", "type P *P\n\n", "*P"},
		{"type Q **Q", "type Q **Q\n\n", "Q"},
		{"type R struct{ N *R2 }; type R2 *R", "type R struct{ N *R2 }\n\ntype R2 *R\n\n", "*R"},
		{"type R2 *R (through the struct)", "type R struct{ N *R2 }\n\ntype R2 *R\n\n", "R2"},
		{"type S []S", "type S []S\n\n", "S"},
		{"type M map[string]M", "type M map[string]M\n\n", "M"},
		{"type P *P as a struct field", "type P *P\n\ntype W struct {\n\tA int\n\tF P\n}\n\n", "*W"},
		{"type A [2]*A", "type A [2]*A\n\n", "A"},
	}
	for _, pl := range []string{"equal", "compare", "hash", "clone", "deepcopy", "gostring"} {
		tp := pluginByName(pl)
		for _, sh := range shapes {
			fn := prefixes[pl] + "Self"
			params, body := tp.call(fn)
			src := "package PKGDIR\n\n" + sh.decls + "func Use(" + params(sh.typ) + ") {\n\t" + body + "\n}\n"
			add(caseT{Family: "selfpointer", Plugin: pl, What: sh.what, Call: fn, Names: []string{fn, "P", "Q", "R", "R2", "S", "M", "W", "A"}, Unsupp: true},
				map[string]string{"u.go": src})
		}
	}
}

func genNilArgs(prefixes map[string]string) {
	table := []struct {
		plugin, params string
		args           []string
	}{
		{"equal", "a, b *T", []string{"a", "b"}}, {"compare", "a, b *T", []string{"a", "b"}}, {"hash", "a *T", []string{"a"}},
		{"deepcopy", "a, b *T", []string{"a", "b"}}, {"clone", "a *T", []string{"a"}}, {"gostring", "a *T", []string{"a"}},
		{"keys", "a map[string]*T", []string{"a"}}, {"sort", "a []string", []string{"a"}}, {"set", "a []int", []string{"a"}},
		{"min", "a []*T", []string{"a", "a[0]"}}, {"max", "a []*T", []string{"a", "a[0]"}}, {"contains", "a []*T", []string{"a", "a[0]"}},
		{"intersect", "a, b []int", []string{"a", "b"}}, {"union", "a, b []int", []string{"a", "b"}}, {"unique", "a []*T", []string{"a"}},
		{"min", "a []int", []string{"a", "a[0]"}}, {"contains", "a []string", []string{"a", "a[0]"}}, {"equal", "a, b []int", []string{"a", "b"}},
		{"equal", "a, b map[string]int", []string{"a", "b"}}, {"compare", "a, b []*T", []string{"a", "b"}},
	}
	for _, row := range table {
		fn := prefixes[row.plugin] + "Nil"
		emit := func(what string, args []string) {
			src := "package PKGDIR\n\ntype T struct {\n\tA int\n\tB []string\n}\n\nfunc Use(" + row.params + ") {\n\t" + fn + "(" + strings.Join(args, ", ") + ")\n}\n"
			add(caseT{Family: "nilargs", Plugin: row.plugin, What: what + " (" + row.params + ")", Call: fn, Names: []string{fn, "nil"}, Unsupp: true},
				map[string]string{"u.go": src})
		}
		all := make([]string, len(row.args))
		for i := range all {
			all[i] = "nil"
		}
		emit("no arguments at all", nil)
		if len(row.args) > 1 {
			emit("first argument only", row.args[:1])
		}
		emit("nothing but untyped nil", all)
		if len(row.args) > 1 {
			for i := range row.args {
				a := append([]string{}, row.args...)
				a[i] = "nil"
				emit(fmt.Sprintf("untyped nil as argument %d", i), a)
			}
		}
		emit("one more argument, untyped nil", append(append([]string{}, row.args...), "nil"))
	}
}

// ---------------------------------------------------------------- family: diagnostics

func genDiagnostics(prefixes map[string]string) {
	common := `func fis(i int) string { return "" }
func f2(a, b int) string { return "" }
func fss(s string) string { return s }
func f22(i int) (int, int) { return i, i }
func frune2(r rune) (int, int) { return 0, 0 }
func ferr() (string, error) { return "", nil }
func fnoterr() (string, int) { return "", 0 }
func fint() (int, error) { return 0, nil }
func predInt(i int) int { return i }
func tupleBad() (int, error) { return 0, nil }
func tupleGood() (func() (string, error), error) { return ferr, nil }
func stage1(a int) (string, int, error) { return "", 0, nil }
func stage2(s string) (float64, error) { return 0, nil }
func trav(i int) (string, int) { return "", 0 }

var (
	xs   []int
	strs []string
	ci   chan int
	cs   chan string
	cci  chan chan int
	sci  []chan int
	e    error
)
`
	tag := ""
	d := func(plugin, what, call string, extraDecls string, names ...string) {
		fn := prefixes[plugin] + "Diag"
		src := "package PKGDIR\n\n" + common + extraDecls + "\nfunc Use() {\n\t" + strings.ReplaceAll(call, "FN", fn) + "\n}\n"
		add(caseT{Family: "diagnostics", Plugin: plugin, What: what, Call: fn, Names: append([]string{fn}, names...), Unsupp: true, Tag: tag},
			map[string]string{"u.go": src})
	}
	// fmap
	d("fmap", "error form: second result of the second argument is not an error", "FN(fis, fnoterr)", "")
	d("fmap", "error form: first argument is not a function", "FN(5, ferr)", "")
	d("fmap", "error form: first argument takes two parameters", "FN(f2, fint)", "")
	d("fmap", "error form: input type differs from the result type of the second argument", "FN(fis, ferr)", "")
	d("fmap", "error form: valid", "FN(fss, ferr)", "")
	d("fmap", "string form: first argument is not a function", "FN(5, \"s\")", "")
	d("fmap", "string form: first argument takes two parameters", "FN(f2, \"s\")", "")
	d("fmap", "string form: two results", "FN(frune2, \"s\")", "")
	d("fmap", "string form: not a string constant", "FN(fis, 5)", "")
	d("fmap", "chan form: first argument is not a function", "FN(5, ci)", "")
	d("fmap", "chan form: first argument takes two parameters", "FN(f2, ci)", "")
	d("fmap", "chan form: input type differs from the element type", "FN(fss, ci)", "")
	d("fmap", "chan form: two results", "FN(f22, ci)", "")
	d("fmap", "slice form: two results", "FN(f22, xs)", "")
	// join
	d("join", "tuple form: first component is not a function", "FN(tupleBad())", "")
	d("join", "tuple form: valid", "FN(tupleGood())", "")
	d("join", "error form: second argument is not an error", "FN(ferr, 5)", "")
	d("join", "error form: function has parameters", "FN(func(a int) (int, error) { return a, nil }, e)", "")
	d("join", "error form: function has no results", "FN(func() {}, e)", "")
	d("join", "error form: last result is not an error", "FN(fnoterr, e)", "")
	d("join", "error form: valid", "FN(ferr, e)", "")
	d("join", "slice of ints (neither slices nor strings)", "FN(xs)", "")
	d("join", "slice of strings and a second argument", "FN(strs, 1)", "")
	d("join", "chan of chan and a second argument", "FN(cci, 1)", "")
	d("join", "chan and a non-chan", "FN(ci, 5)", "")
	d("join", "chans of different element types", "FN(ci, cs)", "")
	d("join", "a single chan", "FN(ci)", "")
	d("join", "slice of chan and a second argument", "FN(sci, 1)", "")
	d("join", "slice of slices and a second argument", "FN([][]int{}, 1)", "")
	// predicates
	for _, pl := range []string{"all", "any", "filter", "takewhile"} {
		d(pl, "predicate returns int", "FN(predInt, xs)", "")
		d(pl, "predicate returns two values", "FN(f22, xs)", "")
	}
	// variadic one-parameter functions whose parameter type ([]int) IS the element type of the list (F96)
	for _, pl := range []string{"all", "any", "filter", "takewhile"} {
		d(pl, "variadic predicate over a slice of slices", "FN(func(xs ...int) bool { return true }, [][]int{})", "", "variadic", "func(xs ...int) bool")
	}
	d("fmap", "variadic function over a slice of slices", "FN(func(xs ...int) string { return \"\" }, [][]int{})", "", "variadic", "func(xs ...int) string")
	d("fmap", "variadic function over a chan of slices", "FN(func(xs ...int) string { return \"\" }, make(chan []int))", "", "variadic", "func(xs ...int) string")
	d("fmap", "variadic function, error form", "FN(func(xs ...int) string { return \"\" }, func() ([]int, error) { return nil, nil })", "", "variadic", "func(xs ...int) string")
	d("traverse", "variadic function over a slice of slices", "FN(func(xs ...int) (string, error) { return \"\", nil }, [][]int{})", "", "variadic", "func(xs ...int) (string, error)")
	d("mem", "variadic one-parameter function", "FN(func(xs ...int) int { return 0 })", "", "variadic")
	d("pipeline", "variadic stage functions", "FN(func(xs ...int) <-chan []string { return nil }, func(ss ...string) <-chan int { return nil })", "", "variadic")
	// compose / do / traverse
	d("compose", "result and parameter counts of consecutive stages differ", "FN(stage1, stage2)", "")
	d("compose", "result type not assignable to the next parameter", "FN(fint2, stage2)", "func fint2(a int) (int, error) { return a, nil }\n")
	d("compose", "first stage is not a function", "FN(5, stage2)", "", "untyped int")
	d("do", "second result is not an error", "FN(fnoterr, fint)", "")
	d("do", "three results", "FN(func() (int, int, error) { return 0, 0, nil }, fint)", "")
	d("traverse", "second result of the function is not an error", "FN(trav, xs)", "")
	d("traverse", "second argument is a string", "FN(fis, \"s\")", "", "untyped string")
	d("traverse", "one result only", "FN(fis, xs)", "")
	// set-like plugins
	for _, pl := range []string{"union", "intersect"} {
		d(pl, "map whose value type is not struct{}", "FN(map[int]bool{}, map[int]bool{})", "")
		d(pl, "two ints", "FN(1, 2)", "")
		d(pl, "two chans", "FN(ci, ci)", "")
		d(pl, "map set (valid)", "FN(map[int]struct{}{}, map[int]struct{}{})", "")
		d(pl, "different types", "FN(xs, strs)", "")
	}
	for _, pl := range []string{"min", "max"} {
		d(pl, "second argument not assignable to the element type", "FN(xs, \"s\")", "")
		d(pl, "first argument is not a slice", "FN(5, \"s\")", "")
		d(pl, "two values (valid)", "FN(1, 2)", "")
	}
	d("uncurry", "the returned function is variadic", "FN(func(a int) func(b ...string) bool { return nil })", "")
	d("uncurry", "the outer function is variadic", "FN(func(a ...int) func(b string) bool { return nil })", "")
	d("uncurry", "does not return a function", "FN(fis)", "")
	d("uncurry", "two results", "FN(f22)", "")
	// curried forms of equal / compare on unsupported types
	d("equal", "curried form, chan argument", "FN(ci)", "", "chan int", "types.Chan")
	d("equal", "curried form, func argument", "FN(fis)", "", "func(", "types.Signature")
	d("compare", "curried form, chan argument", "FN(ci)", "", "chan int")
	d("compare", "curried form, struct with a func field", "FN(struct{ F func() }{})", "", "struct{F func()}", "func()")
	// custom error types (derive.IsError walks the method set)
	errTypes := `type E1 struct{}

func (E1) Error() string { return "" }

type E2 struct{}

func (E2) Error(x int) string { return "" }

type E3 struct{}

func (E3) Error() (string, int) { return "", 0 }

type E4 struct{}

func (E4) Error() []byte { return nil }

type E5 struct{}

func (E5) Error() int { return 0 }

type E6 struct{}

func (E6) Other() string { return "" }

func (E6) Error2() string { return "" }
`
	tag = "custom-error-type"
	for i := 1; i <= 6; i++ {
		d("do", fmt.Sprintf("second result is the custom type E%d", i), fmt.Sprintf("FN(func() (int, E%d) { return 0, E%d{} }, fint)", i, i), errTypes, fmt.Sprintf("E%d", i))
		d("compose", fmt.Sprintf("last result is the custom type E%d", i), fmt.Sprintf("FN(func(a int) (string, E%d) { return \"\", E%d{} }, stage2)", i, i), errTypes, fmt.Sprintf("E%d", i))
	}
	tag = ""
	// methods of the wrong shape where equal / compare / hash / deepcopy look for a user method
	odd := `type O1 struct{ A []int }

func (o *O1) Equal() bool              { return true }
func (o *O1) Compare() int             { return 0 }
func (o *O1) Hash(seed int) uint64     { return 0 }
func (o *O1) DeepCopy()                {}

type O2 struct{ A []int }

func (o *O2) Equal(p *O2) (bool, int)  { return true, 0 }
func (o *O2) Compare(p *O2) (int, int) { return 0, 0 }
func (o *O2) Hash() (uint64, int)      { return 0, 0 }
func (o *O2) DeepCopy(p *O2) int       { return 0 }

type O3 struct{ A []int }

func (o *O3) Equal(p *O3) int          { return 0 }
func (o *O3) Compare(p *O3) string     { return "" }
func (o *O3) Hash() string             { return "" }
func (o *O3) DeepCopy(p, q *O3)        {}

type O4 struct{ A []int }

func (o *O4) Equal(p *O4) []bool       { return nil }
func (o *O4) Compare(p *O4) []int      { return nil }
func (o *O4) Hash() []uint64           { return nil }

type O5 struct{ A []int }

func (o *O5) Equal(p *O5) bool         { return true }
func (o *O5) Compare(p *O5) int        { return 0 }
func (o *O5) Hash() uint64             { return 0 }
func (o *O5) DeepCopy(p *O5)           {}

type DS []O5

func (d DS) DeepCopy(to DS) {}

type DM map[string]O5

func (d DM) DeepCopy(to DM) {}

type AliasO5 = O5

type F32 float32

type IE interface{ Equal(IE) bool }

type IC interface{ Compare(IC) int }

type W struct {
	A  *O1
	B  *O2
	C  *O3
	D  *O4
	E  *O5
	V  O5
	S  DS
	M  DM
	F  F32
	FS []F32
}

type O6 struct{ A []int }

func (o *O6) Equal(x interface{}) bool  { return true }
func (o *O6) Compare(x interface{}) int { return 0 }

type O7 struct{ A []int }

func (o O7) Equal(x interface{}) bool  { return true }
func (o O7) Compare(x interface{}) int { return 0 }

type WO struct {
	V  O6
	P  *O6
	S  []O6
	V7 O7
	P7 *O7
}

type WA struct {
	AL *AliasO5
	V  AliasO5
}

type WP struct {
	PS *DS
	PM *DM
	SP []*DS
}

type WI struct {
	I  IE
	PI *IE
	SI []IE
}

type WC struct {
	I  IC
	SI []IC
}
`
	for _, pl := range []string{"equal", "compare", "hash", "deepcopy", "clone", "gostring"} {
		tp := pluginByName(pl)
		fn := prefixes[pl] + "Diag"
		params, body := tp.call(fn)
		src := "package PKGDIR\n\n" + odd + "\nfunc Use(" + params("*W") + ") {\n\t" + body + "\n}\n"
		add(caseT{Family: "diagnostics", Plugin: pl, What: "fields whose types declare Equal / Compare / Hash / DeepCopy methods of the right and of wrong shapes, named float32, alias", Call: fn,
			Names: []string{fn, "O1", "O2", "O3", "O4", "W"}, Unsupp: true}, map[string]string{"u.go": src})
	}
	for _, pl := range []string{"equal", "compare", "hash", "deepcopy", "clone", "gostring"} {
		for _, v := range []struct{ typ, what, tag string }{
			{"*WA", "fields of an alias of a named struct type", ""},
			{"*WP", "pointers to named slice / map types that declare DeepCopy", "user-method-behind-pointer"},
			{"*WO", "Equal / Compare methods whose parameter is an interface", ""},
			{"*AliasO5", "pointer to an alias of a named struct, top level", ""},
			{"*O5", "pointer to a type with all four user methods, top level", ""},
		} {
			tp := pluginByName(pl)
			fn := prefixes[pl] + "Diag"
			params, body := tp.call(fn)
			src := "package PKGDIR\n\n" + odd + "\nfunc Use(" + params(v.typ) + ") {\n\t" + body + "\n}\n"
			add(caseT{Family: "diagnostics", Plugin: pl, What: v.what + ": " + v.typ, Call: fn, Names: []string{fn, "AliasO5", "O5", "DS", "DM", "WA", "WP"}, Unsupp: true, Tag: v.tag},
				map[string]string{"u.go": src})
		}
	}
	for _, v := range []struct{ pl, typ string }{{"equal", "*WI"}, {"compare", "*WC"}, {"equal", "IE"}, {"compare", "IC"}} {
		tp := pluginByName(v.pl)
		fn := prefixes[v.pl] + "Diag"
		params, body := tp.call(fn)
		src := "package PKGDIR\n\n" + odd + "\nfunc Use(" + params(v.typ) + ") {\n\t" + body + "\n}\n"
		add(caseT{Family: "diagnostics", Plugin: v.pl, What: "interface-typed components that declare the method: " + v.typ, Call: fn,
			Names: []string{fn, "IE", "IC", "WI", "WC", "interface"}, Unsupp: true}, map[string]string{"u.go": src})
	}
	// assertion-style Equal / Compare / Hash methods without a result, where the list plugins ask derive.HasEqualMethod
	voidm := `type V1 struct{ A int }

func (v V1) Equal(o V1) {}

type V2 struct{ A int }

func (v V2) Equal() {}

type V3 struct{ A int }

func (v V3) Equal(a, b V3) {}

type V4 struct{ A int }

func (v *V4) Equal(o *V4) {}

type V5 struct{ A int }

func (v V5) Equal(o V5) (bool, error) { return true, nil }

type VS struct {
	F V1
	G [2]V1
}
`
	for _, pl := range []string{"contains", "unique", "union", "intersect", "set", "equal", "hash", "compare", "mem"} {
		for _, et := range []string{"V1", "V2", "V3", "V4", "*V4", "V5", "VS", "[2]V1", "struct{ F V1 }"} {
			fn := prefixes[pl] + "Void"
			var use string
			switch pl {
			case "contains":
				use = "func Use(a []" + et + ") bool { return " + fn + "(a, a[0]) }"
			case "unique", "set":
				use = "func Use(a []" + et + ") { " + fn + "(a) }"
			case "union", "intersect":
				use = "func Use(a, b []" + et + ") { " + fn + "(a, b) }"
			case "equal", "compare":
				use = "func Use(a, b []" + et + ") { " + fn + "(a, b) }"
			case "hash":
				use = "func Use(a []" + et + ") { " + fn + "(a) }"
			case "mem":
				use = "func Use(f func(x " + et + ") int) { " + fn + "(f) }"
			}
			add(caseT{Family: "diagnostics", Plugin: pl, What: "element type with an assertion-style Equal method (no result / odd shape): " + et, Call: fn,
				Names: []string{fn, "V1", "V2", "V3", "V4", "V5", "VS", "Equal"}, Unsupp: true}, map[string]string{"u.go": "package PKGDIR\n\n" + voidm + "\n" + use + "\n"})
		}
	}
	// element types that are comparable only at run time: refused, or accepted AND safe (probe_test.go is run by the check)
	for _, v := range []struct{ pl, what, use, probe string }{
		{"unique", "slice of interface{}", "func Use(a []interface{}) []interface{} { return FN(a) }",
			"\tif n := len(Use([]interface{}{[]int{1}, []int{1}, 1, 1})); n < 1 {\n\t\tt.Fatal(n)\n\t}"},
		{"unique", "slice of error", "func Use(a []error) []error { return FN(a) }",
			"\tif n := len(Use([]error{sliceErr{1}, sliceErr{1}, nil})); n < 1 {\n\t\tt.Fatal(n)\n\t}"},
		{"unique", "slice of structs holding an interface", "type H struct{ I interface{} }\n\nfunc Use(a []H) []H { return FN(a) }",
			"\tif n := len(Use([]H{{[]int{1}}, {[]int{1}}, {map[string]int{}}})); n < 1 {\n\t\tt.Fatal(n)\n\t}"},
		{"unique", "slice of arrays of interface{}", "func Use(a [][1]interface{}) [][1]interface{} { return FN(a) }",
			"\tif n := len(Use([][1]interface{}{{[]int{1}}, {[]int{1}}})); n < 1 {\n\t\tt.Fatal(n)\n\t}"},
		{"mem", "function of an interface{} parameter", "func Use(f func(x interface{}) int) func(x interface{}) int { return FN(f) }",
			"\tm := Use(func(x interface{}) int { return 1 })\n\tif m([]int{1})+m([]int{1})+m(map[string]int{}) != 3 {\n\t\tt.Fatal()\n\t}"},
		{"mem", "function of an error parameter", "func Use(f func(x error) int) func(x error) int { return FN(f) }",
			"\tm := Use(func(x error) int { return 1 })\n\tif m(sliceErr{1})+m(sliceErr{1}) != 2 {\n\t\tt.Fatal()\n\t}"},
		{"contains", "slice of interface{}", "func Use(a []interface{}, x interface{}) bool { return FN(a, x) }",
			"\t_ = Use([]interface{}{[]int{1}, 2}, []int{1})"},
		{"set", "slice of interface{}", "func Use(a []interface{}) int { return len(FN(a)) }",
			"\t_ = Use([]interface{}{[]int{1}, []int{1}})"},
		{"union", "slices of interface{}", "func Use(a, b []interface{}) int { return len(FN(a, b)) }",
			"\t_ = Use([]interface{}{[]int{1}}, []interface{}{[]int{1}})"},
	} {
		fn := prefixes[v.pl] + "Probe"
		src := "package PKGDIR\n\ntype sliceErr []int\n\nfunc (sliceErr) Error() string { return \"e\" }\n\n" + strings.ReplaceAll(v.use, "FN", fn) + "\n"
		probe := "package PKGDIR\n\nimport \"testing\"\n\n// dynamic values of non-comparable types must not make the generated code panic\nfunc TestProbe(t *testing.T) {\n" + v.probe + "\n}\n"
		add(caseT{Family: "probes", Plugin: v.pl, What: v.what, Call: fn, Names: []string{fn, "interface", "error", "comparable", "H"}, Unsupp: true, Tag: "probe"},
			map[string]string{"u.go": src, "probe_test.go": probe})
	}
	// parameters named like an imported package that qualifies only a RESULT type (or a type nested in the results): the
	// wrappers forward the parameter names and spell the result types inside their scope
	qual := `import (
	"container/list"
	"net/url"
	"time"
)

func timeout(time int, retries int) time.Duration { return 0 }

func parse(url string, list int) (*url.URL, *list.List) { return nil, nil }

func later(time string) func(list int) time.Time { return nil }

func both(time time.Duration, url int) time.Time { return time_(url) }

func time_(i int) time.Time { return time.Time{} }

func wrapped(list []int) map[string]*list.Element { return nil }

func failing(time int) (time.Duration, error) { return 0, nil }

func check(url string) (*url.URL, bool) { return nil, true }

func lists(time int) []*list.List { return nil }

func timeout2(time int) time.Duration { return 0 }
`
	for _, v := range []struct{ pl, what, call string }{
		{"curry", "parameter named time, result time.Duration", "FN(timeout)"},
		{"curry", "parameters named url and list, results *url.URL, *list.List", "FN(parse)"},
		{"curry", "parameter typed by the package it is named after", "FN(both)"},
		{"apply", "parameter named time, result time.Duration", "FN(timeout, 2)"},
		{"apply", "parameters named url and list", "FN(parse, 3)"},
		{"flip", "parameter named time, result time.Duration", "FN(timeout)"},
		{"flip", "parameters named url and list", "FN(parse)"},
		{"uncurry", "outer parameter named time, inner named list, result time.Time", "FN(later)"},
		{"mem", "parameter named time, result time.Duration", "FN(timeout)"},
		{"mem", "parameters named url and list", "FN(parse)"},
		{"mem", "parameter named list, result a map to *list.Element", "FN(wrapped)"},
		{"toerror", "parameter named url, results (*url.URL, bool)", "FN(e, check)"},
		{"fmap", "parameter named time, result time.Duration", "FN(timeout2, []int{1})"},
		{"compose", "stage parameter named time, result (time.Duration, error)", "FN(failing, func(d time.Duration) (string, error) { return \"\", nil })"},
		{"traverse", "parameter named time, result (time.Duration, error)", "FN(failing, []int{1})"},
		{"tuple", "values of package types", "FN(time.Second, &url.URL{})"},
	} {
		fn := prefixes[v.pl] + "Qual"
		src := "package PKGDIR\n\n" + qual + "\nvar e error\n\nvar _ = list.New\n\nfunc Use() {\n\t" + strings.ReplaceAll(v.call, "FN", fn) + "\n}\n"
		add(caseT{Family: "diagnostics", Plugin: v.pl, What: "parameter named like a package that qualifies a result type: " + v.what, Call: fn, Names: []string{fn}, MustOK: true},
			map[string]string{"u.go": src})
	}
	// the generated functions' OWN parameter and variable names (list, item, set, out, …) next to an imported package of that name
	for _, v := range []struct{ pl, call string }{
		{"fmap", "FN(lists, []int{1})"}, {"fmap", "FN(wrapped, [][]int{})"}, {"fmap", "FN(func(l *list.List) int { return l.Len() }, ls)"},
		{"filter", "FN(func(l *list.List) bool { return true }, ls)"}, {"takewhile", "FN(func(l *list.List) bool { return true }, ls)"},
		{"all", "FN(func(l *list.List) bool { return true }, ls)"}, {"any", "FN(func(l *list.List) bool { return true }, ls)"},
		{"contains", "FN(ls, ls[0])"}, {"unique", "FN(ls)"}, {"set", "FN(ls)"}, {"union", "FN(ls, ls)"}, {"intersect", "FN(ls, ls)"},
		{"min", "FN(es, es[0])"}, {"max", "FN(es, es[0])"}, {"sort", "FN(es)"}, {"keys", "FN(map[*list.List]int{})"},
		{"join", "FN([][]*list.List{})"}, {"traverse", "FN(func(l *list.List) (int, error) { return 0, nil }, ls)"},
		{"equal", "FN(ls, ls)"}, {"hash", "FN(ls)"}, {"deepcopy", "FN(ls, ls)"}, {"clone", "FN(ls)"}, {"gostring", "FN(es)"}, {"compare", "FN(es, es)"},
		{"dup", "FN(make(<-chan *list.List))"}, {"tuple", "FN(ls, es)"},
	} {
		fn := prefixes[v.pl] + "Shadow"
		src := "package PKGDIR\n\n" + qual + "\ntype E struct{ N int }\n\nvar ls []*list.List\n\nvar es []E\n\nvar _ = url.Parse\n\nvar _ time.Time\n\nfunc Use() {\n\t" + strings.ReplaceAll(v.call, "FN", fn) + "\n}\n"
		add(caseT{Family: "diagnostics", Plugin: v.pl, What: "an imported package named like a parameter of the generated function (container/list): " + v.call, Call: fn,
			Names: []string{fn, "list.List", "List", "any", "Value"}, Unsupp: true, Tag: "generated-parameter-shadows-package"}, map[string]string{"u.go": src})
	}
	// an imported struct with an unexported field whose type comes from a THIRD package that nothing else mentions
	for _, pl := range []string{"hash", "unique", "mem", "equal", "compare", "deepcopy", "clone", "gostring", "contains", "set"} {
		fn := prefixes[pl] + "Third"
		var use string
		switch pl {
		case "hash", "clone", "gostring":
			use = "func Use(a *ext.Session) { " + fn + "(a) }\n\nfunc UseR(r *bufio.Reader) { " + fn + "R(r) }"
		case "equal", "compare", "deepcopy":
			use = "func Use(a, b *ext.Session) { " + fn + "(a, b) }\n\nfunc UseR(r, q *bufio.Reader) { " + fn + "R(r, q) }"
		case "unique", "set":
			use = "func Use(a []*ext.Session) { " + fn + "(a) }\n\nfunc UseR(r []*bufio.Reader) { " + fn + "R(r) }"
		case "contains":
			use = "func Use(a []*ext.Session) bool { return " + fn + "(a, a[0]) }\n\nfunc UseR(r []*bufio.Reader) bool { return " + fn + "R(r, r[0]) }"
		case "mem":
			use = "func Use(f func(a *ext.Session) int) { " + fn + "(f) }\n\nfunc UseR(f func(r *bufio.Reader) int) { " + fn + "R(f) }"
		}
		for _, half := range []string{"Use", "UseR"} {
			body := use
			if half == "Use" {
				body = strings.Split(use, "\n\nfunc UseR")[0]
			} else {
				body = "func UseR" + strings.Split(use, "\n\nfunc UseR")[1]
			}
			imp := "import ext \"bad/PKGDIR/ext\"\n"
			if half == "UseR" {
				imp = "import \"bufio\"\n"
			}
			add(caseT{Family: "diagnostics", Plugin: pl, What: "external struct with an unexported field of a third package's type (" + map[string]string{"Use": "ext.Session", "UseR": "bufio.Reader"}[half] + ")",
				Call: fn, Names: []string{fn, fn + "R", "unexported", "private", "token", "Session", "Reader", "rd", "buf"}, Unsupp: true},
				map[string]string{"u.go": "package PKGDIR\n\n" + imp + "\n" + body + "\n",
					"ext/ext.go":     "package ext\n\nimport \"bad/PKGDIR/third\"\n\ntype Session struct {\n\tUser  string\n\tRoles []string\n\ttoken third.Token\n\tinner *third.Token\n}\n\nfunc New() *Session { return &Session{} }\n",
					"third/third.go": "package third\n\ntype Token struct {\n\tID    int\n\tScope []string\n}\n"})
		}
	}
	// unnamed struct with an embedded field (FieldStrings), private fields of an external struct (gostring)
	for _, pl := range []string{"equal", "hash", "compare"} {
		tp := pluginByName(pl)
		fn := prefixes[pl] + "Diag"
		params, body := tp.call(fn)
		src := "package PKGDIR\n\ntype T struct{ A []int }\n\nfunc Use(" + params("struct {\n\tT\n\tX int\n}") + ") {\n\t" + body + "\n}\n"
		add(caseT{Family: "diagnostics", Plugin: pl, What: "unnamed struct with an embedded field", Call: fn, Names: []string{fn, "struct"}, Unsupp: true}, map[string]string{"u.go": src})
	}
	for _, pl := range []string{"gostring", "equal", "hash", "deepcopy", "clone", "compare"} {
		tp := pluginByName(pl)
		fn := prefixes[pl] + "Diag"
		params, body := tp.call(fn)
		src := "package PKGDIR\n\nimport ext \"bad/PKGDIR/ext\"\n\nfunc Use(" + params("*ext.T") + ") {\n\t" + body + "\n}\n"
		add(caseT{Family: "diagnostics", Plugin: pl, What: "external struct with a private field", Call: fn, Names: []string{fn, "private", "ext.T", "hidden"}, Unsupp: true},
			map[string]string{"u.go": src, "ext/ext.go": "package ext\n\ntype T struct {\n\tPub int\n\thidden []string\n}\n"})
		// unexported fields whose names do not start with an ASCII lower-case letter (underscore, non-ASCII) and
		// exported ones with a non-ASCII capital
		for _, v := range []struct{ what, fields string }{
			{"unexported fields starting with an underscore", "\tPub int\n\t_flags int\n\t_reserved []byte\n"},
			{"unexported fields with non-ASCII lower-case names", "\tPub int\n\tñame string\n\tδelta []int\n"},
			{"exported fields with non-ASCII capitals, a blank field", "\tÑame string\n\tΔelta []int\n\t_ int\n"},
			{"only unexported fields", "\t_a int\n\tb []string\n"},
		} {
			src2 := "package PKGDIR\n\nimport ext \"bad/PKGDIR/ext\"\n\ntype W struct {\n\tE ext.T\n\tP *ext.T\n}\n\nfunc Use(" + params("*ext.T") + ") {\n\t" + body + "\n}\n\nfunc UseW(" + params("*W") + ") {\n\t" + strings.Replace(body, fn, fn+"W", 1) + "\n}\n"
			add(caseT{Family: "diagnostics", Plugin: pl, What: "external struct: " + v.what, Call: fn, Names: []string{fn, fn + "W", "private", "ext.T", "unexported", "_flags", "ñame", "_a"}, Unsupp: true},
				map[string]string{"u.go": src2, "ext/ext.go": "package ext\n\ntype T struct {\n" + v.fields + "}\n\nfunc New() *T { return &T{} }\n"})
		}
	}
	// the words "invalid type" where they are not a type (struct tag, string, field name): the call must not wait for ever
	for _, pl := range []string{"equal", "hash", "compare", "gostring", "deepcopy", "clone"} {
		tp := pluginByName(pl)
		fn := prefixes[pl] + "Tag"
		params, body := tp.call(fn)
		src := "package PKGDIR\n\ntype T struct {\n\tA []int \x60json:\"invalid type\"\x60\n\tInvalidType string \x60doc:\"this says invalid type too\"\x60\n}\n\nfunc Use(" + params("*T") + ") {\n\t" + body + "\n}\n"
		if pl == "equal" || pl == "hash" || pl == "gostring" { // the plugins that take an unnamed struct by value
			src += "\nfunc UseAnon(" + params("struct {\n\tA []int \x60x:\"invalid type\"\x60\n}") + ") {\n\t" + strings.Replace(body, fn, fn+"Anon", 1) + "\n}\n"
		}
		add(caseT{Family: "diagnostics", Plugin: pl, What: "struct tags that contain the words invalid type", Call: fn, Names: []string{fn}, MustOK: true}, map[string]string{"u.go": src})
	}
	// an interface type whose method mentions an undeclared type / a bound method value of an undeclared type
	for _, v := range []string{"func Use(a, b interface{ M(x ID) }) bool { return deriveEqualIface(a, b) }",
		"func Use(a interface{ M() []ID }) uint64 { return deriveHashIface(a) }",
		"type I interface{ M(map[ID]int) }\n\nfunc Use(a, b I) bool { return deriveEqualIface(a, b) }",
		"var v ID\n\nfunc Use() { deriveCurryIface(v.Method) }"} {
		add(caseT{Family: "unresolved", What: "an undeclared type in the methods of an interface / a method value", Call: "deriveEqualIface",
			Names: []string{"deriveEqualIface", "deriveHashIface", "deriveCurryIface", "ID"}, UserBad: true}, map[string]string{"u.go": "package PKGDIR\n\n" + v + "\n"})
	}
	// customised prefixes under which the helper name one plugin makes up is the name of another plugin's call (F13)
	add(caseT{Family: "diagnostics", Plugin: "hash", What: "-pluginprefix hash=hs,equal=hs_T: the hash helper for type T1 would be named like the equal call", Call: "hs_T",
		Names: []string{"hs_T", "hs"}, MustOK: true, PreArgs: []string{"-pluginprefix=hash=hs,equal=hs_T"}},
		map[string]string{"u.go": "package PKGDIR\n\ntype T1 []int\n\ntype S struct {\n\tL []string\n\tX T1\n}\n\nfunc H(a *S) uint64 { return hs(a) }\n\nfunc E(a, b *S) bool { return hs_T(a, b) }\n"})
	add(caseT{Family: "diagnostics", Plugin: "compare", What: "-pluginprefix compare=c,sort=c_,keys=c_K: helper names of three plugins meet", Call: "c",
		Names: []string{"c", "c_"}, Unsupp: true, PreArgs: []string{"-pluginprefix=compare=c,sort=c_,keys=c_K"}},
		map[string]string{"u.go": "package PKGDIR\n\ntype K map[string]int\n\ntype S struct {\n\tM K\n\tL []string\n}\n\nfunc C(a, b *S) int { return c(a, b) }\n\nfunc Ks(k K) []string { return c_K(k) }\n"})
	// the package declares a name that the generated file needs for an import (fmt, strconv, bytes, sort, strings)
	for _, v := range []struct{ pl, decl string }{
		{"gostring", "var fmt = 1\n\nfunc strconv() {}\n"}, {"gostring", "type fmt struct{}\n\nconst strconv = 2\n"},
		{"equal", "type bytes []int\n"}, {"compare", "var bytes, strings int\n"}, {"hash", "func math() {}\n\nvar sort = 0\n"}, {"compare", "func sort() {}\n"},
	} {
		tp := pluginByName(v.pl)
		fn := prefixes[v.pl] + "Decl"
		params, body := tp.call(fn)
		src := "package PKGDIR\n\n" + v.decl + "\ntype T struct {\n\tB []byte\n\tS string\n\tF float64\n\tM map[string]int\n\tP *int\n}\n\nfunc Use(" + params("*T") + ") {\n\t" + body + "\n}\n"
		add(caseT{Family: "diagnostics", Plugin: v.pl, What: "the package declares the name of a package the generated file imports: " + strings.ReplaceAll(strings.TrimSpace(v.decl), "\n", " "),
			Call: fn, Names: []string{fn}, MustOK: true}, map[string]string{"u.go": src})
	}
	// a call that can never be resolved next to calls that are generated for: the run must fail and name it (F131)
	for i, v := range []string{
		"func B() uint64 { return deriveHash(undefinedVar) }",
		"func B() bool { return deriveEqual(mystery(1), mystery(2)) }",
		"func B(m map[ID]int) []ID { return deriveKeys(m) }",
		"func B() []int { return deriveSort(deriveNoSuchPlugin([]int{1})) }",
		"var late = deriveFmap(missingFunc, []int{1})",
	} {
		add(caseT{Family: "unresolved", What: fmt.Sprintf("an unresolvable call next to a good one (%d)", i), Call: "derive",
			Names: []string{"deriveHash", "deriveEqual", "deriveKeys", "deriveSort", "deriveFmap", "cannot generate"}, UserBad: true, MustFail: true},
			map[string]string{"u.go": "package PKGDIR\n\nfunc A(a, b []int) bool { return deriveEqualInts(a, b) }\n\nfunc C(a []string) []string { return deriveSortStrs(a) }\n\n" + v + "\n"})
	}
	// imported structs with unexported fields of unexported types (bytes.Buffer, strings.Builder, sync types …) inside the argument (F133)
	for _, pl := range []string{"equal", "compare", "hash", "deepcopy", "clone", "gostring", "unique", "contains"} {
		for _, ft := range []string{"*bytes.Buffer", "bytes.Buffer", "strings.Builder", "*strings.Builder", "sync.Mutex", "*sync.WaitGroup", "sync.Once", "time.Time", "*time.Timer", "big.Int", "*big.Float", "list.List", "regexp.Regexp", "[]*bytes.Buffer", "map[string]bytes.Buffer"} {
			tp := pluginByName(pl)
			fn := prefixes[pl] + "Std"
			params, body := tp.call(fn)
			at := tp.arg("*W")
			src := "package PKGDIR\n\nimport (\n\t\"bytes\"\n\t\"container/list\"\n\t\"math/big\"\n\t\"regexp\"\n\t\"strings\"\n\t\"sync\"\n\t\"time\"\n)\n\nvar (\n\t_ bytes.Buffer\n\t_ list.List\n\t_ big.Int\n\t_ regexp.Regexp\n\t_ strings.Builder\n\t_ sync.Mutex\n\t_ time.Time\n)\n\ntype W struct {\n\tA int\n\tF " + ft + "\n}\n\nfunc Use(" + params(at) + ") {\n\t" + body + "\n}\n"
			add(caseT{Family: "diagnostics", Plugin: pl, What: "a struct holding the standard library type " + ft, Call: fn,
				Names: []string{fn, "unexported", "private", "Buffer", "Builder", "Mutex", "WaitGroup", "Once", "Time", "Timer", "Int", "Float", "List", "Regexp", "W", "any", "time.Location", "time.zone", "Location", "interface"}, Unsupp: true}, map[string]string{"u.go": src})
		}
	}
	// a named type WITH METHODS and its unnamed twin are two argument types (F130)
	for _, pl := range []string{"equal", "compare", "hash", "deepcopy", "clone", "gostring", "sort", "contains", "unique"} {
		tp := pluginByName(pl)
		fn := prefixes[pl] + "Twin"
		params, body := tp.call(fn)
		decl := "type L []int\n\nfunc (l L) Len() int { return len(l) }\n\ntype M map[string]int\n\nfunc (m M) Size() int { return len(m) }\n\ntype S struct {\n\tA L\n\tB []int\n\tC M\n\tD map[string]int\n}\n\n"
		at := tp.arg("*S")
		src := "package PKGDIR\n\n" + decl + "func Use(" + params(at) + ") {\n\t" + body + "\n}\n"
		if pl == "equal" || pl == "compare" || pl == "hash" {
			p2, b2 := tp.call(fn + "L")
			p3, b3 := tp.call(fn + "U")
			src += "\nfunc UseL(" + p2("L") + ") {\n\t" + b2 + "\n}\n\nfunc UseU(" + p3("[]int") + ") {\n\t" + b3 + "\n}\n"
		}
		add(caseT{Family: "twins", Plugin: pl, What: "a named type with methods and its unnamed twin side by side", Call: fn, Names: []string{fn, "L", "M", "S"}, Unsupp: true}, map[string]string{"u.go": src})
	}
	// map sets whose value type is a NAMED empty struct / an alias of struct{} / struct{} itself (control), for the plugins that
	// treat map[K]struct{} as a set
	setDecl := "type present struct{}\n\ntype Mark = struct{}\n\ntype NS map[string]present\n\ntype AS map[string]Mark\n\ntype NU map[string]struct{}\n\nvar (\n\ta, b   map[string]present\n\tc, d   map[string]Mark\n\te, f   map[string]struct{}\n\tna, nb NS\n\taa, ab AS\n\tua, ub NU\n\tpi     map[int]present\n\tpp     map[*int]present\n)\n"
	for _, pl := range []string{"union", "intersect", "keys", "set", "equal", "compare", "hash", "deepcopy", "clone", "gostring", "sort", "unique", "contains", "min"} {
		for _, v := range []struct{ what, x, y string }{
			{"map to a named empty struct", "a", "b"}, {"map to an alias of struct{}", "c", "d"}, {"map to struct{} (control)", "e", "f"},
			{"named map to a named empty struct", "na", "nb"}, {"named map to an alias of struct{}", "aa", "ab"}, {"named map to struct{}", "ua", "ub"},
			{"map from int to a named empty struct", "pi", "pi"}, {"map from a pointer to a named empty struct", "pp", "pp"},
			{"a named-struct set and a plain set", "a", "e"},
		} {
			fn := prefixes[pl] + "Set"
			var call string
			switch pl {
			case "union", "intersect", "equal", "compare", "deepcopy":
				call = fn + "(" + v.x + ", " + v.y + ")"
			case "contains", "min":
				call = fn + "(" + v.x + ", present{})"
			case "sort", "unique", "set":
				call = fn + "(" + prefixes["keys"] + "Of(" + v.x + "))"
			default:
				call = fn + "(" + v.x + ")"
			}
			src := "package PKGDIR\n\n" + setDecl + "\nfunc Use() {\n\t" + call + "\n}\n"
			add(caseT{Family: "diagnostics", Plugin: pl, What: v.what + ": " + call, Call: fn,
				Names: []string{fn, "present", "Mark", "NS", "AS", "NU", "struct{}", "map["}, Unsupp: true}, map[string]string{"u.go": src})
		}
	}
	// … and used: the results of union / intersect over such sets must be assignable back
	for _, pl := range []string{"union", "intersect"} {
		fn := prefixes[pl] + "SetUse"
		src := "package PKGDIR\n\n" + setDecl + "\nfunc Use() {\n\te = " + fn + "(e, f)\n\tvar r map[string]struct{} = " + fn + "(ua, ub)\n\t_ = r\n}\n"
		add(caseT{Family: "diagnostics", Plugin: pl, What: "plain and named struct{} sets, results used", Call: fn, Names: []string{fn, "NU", "struct{}"}, Unsupp: true}, map[string]string{"u.go": src})
	}
	// the command line
	okPkg := "package PKGDIR\n\nfunc Eq(a, b []int) bool { return deriveEqual(a, b) }\n"
	cl := func(what string, pre, post []string, names ...string) {
		add(caseT{Family: "diagnostics", What: what, Call: "deriveEqual", Names: names, Unsupp: true, PreArgs: pre, PostArgs: post}, map[string]string{"u.go": okPkg})
	}
	cl("-pluginprefix pair without '='", []string{"-pluginprefix=equal"}, nil, "plugin prefix", "equal")
	cl("-pluginprefix with an empty pair", []string{"-pluginprefix=equal=eq,,hash=h"}, nil, "plugin prefix")
	cl("-pluginprefix with two '='", []string{"-pluginprefix=equal=a=b"}, nil, "plugin prefix", "equal=a=b")
	cl("-pluginprefix for an unknown plugin", []string{"-pluginprefix=nosuchplugin=x"}, nil, "nosuchplugin", "deriveEqual")
	cl("unknown flag", []string{"-nosuchflag"}, nil, "nosuchflag", "flag")
	cl(".go file and a package path mixed", []string{"./PKGDIR/u.go"}, nil, ".go", "arguments")
	cl("arguments after --", nil, []string{"--", "extra", "words"}, "extra", "arguments")
	cl("-prefix that is not an identifier", []string{"-prefix=de-rive"}, nil, "deriveEqual", "de-rive")
	cl("-prefix empty", []string{"-prefix="}, nil, "deriveEqual", "prefix")
	// I/O failures
	add(caseT{Family: "diagnostics", What: "derived.gen.go is a non-empty directory, content to write", Call: "deriveEqual", Names: []string{"derived.gen.go", "directory"}, Unsupp: true},
		map[string]string{"u.go": okPkg, "derived.gen.go/keep.txt": "x\n"})
	add(caseT{Family: "diagnostics", What: "derived.gen.go is a non-empty directory, nothing to write", Call: "deriveEqual", Names: []string{"derived.gen.go", "directory"}, Unsupp: true},
		map[string]string{"u.go": "package PKGDIR\n\nfunc X() int { return 1 }\n", "derived.gen.go/keep.txt": "x\n"})
	// a derived.gen.go the parser gives up on
	for i, g := range []string{"", "\x00", "package", "// only a comment\n", "packag PKGDIR\n", "package PKGDIR; func (", "package 5\n", strings.Repeat("{", 3000)} {
		add(caseT{Family: "broken", What: fmt.Sprintf("derived.gen.go the parser cannot use (%d)", i), Call: "deriveEqual", Names: []string{"deriveEqual", "derived.gen.go"}},
			map[string]string{"u.go": okPkg, "derived.gen.go": g})
	}
}

// ---------------------------------------------------------------- families: generics, namedtypes

func genGenerics(prefixes map[string]string) {
	shapes := []struct{ what, tparams, typ string }{
		{"slice of a type parameter", "[T any]", "[]T"},
		{"map with type-parameter key and value", "[K comparable, V any]", "map[K]V"},
		{"pointer to a generic struct instantiated with the type parameter", "[T any]", "*G[T]"},
		{"generic struct (field of type-parameter type) by value", "[T any]", "G[T]"},
		{"chan of a type parameter", "[T any]", "chan T"},
		{"the type parameter itself", "[T comparable]", "T"},
		{"pointer to the type parameter", "[T any]", "*T"},
		{"constrained type parameter", "[T ~int | ~string]", "[]T"},
		{"unnamed struct with a field of type-parameter type", "[T any]", "struct{ F T }"},
		{"named type over the parameter, declared outside", "[T any]", "Box[T]"},
	}
	decls := "type G[T any] struct {\n\tX T\n\tL []T\n\tM map[string]T\n}\n\ntype Box[T any] []T\n\n"
	for _, tp := range typedPlugins() {
		for _, sh := range shapes {
			fn := prefixes[tp.name] + "Gen"
			at := tp.arg(sh.typ)
			if tp.name == "keys" {
				at = "map[string]" + sh.typ
				if strings.HasPrefix(sh.typ, "map[") {
					at = sh.typ
				}
			}
			params, body := tp.call(fn)
			src := "package PKGDIR\n\n" + decls + "func Use" + sh.tparams + "(" + params(at) + ") {\n\t" + body + "\n}\n"
			add(caseT{Family: "generics", Plugin: tp.name, What: sh.what + ": " + at, Call: fn, Names: []string{fn, "type parameter", "T", "K"}, Unsupp: true},
				map[string]string{"u.go": src})
		}
		// method of a generic type, and a fully instantiated generic type outside any generic function
		fn := prefixes[tp.name] + "Gen"
		params, body := tp.call(fn)
		at := tp.arg("*G[T]")
		if tp.name == "keys" {
			at = "map[string]*G[T]"
		}
		src := "package PKGDIR\n\n" + decls + "type H[T any] struct{}\n\nfunc (H[T]) Use(" + params(at) + ") {\n\t" + body + "\n}\n"
		add(caseT{Family: "generics", Plugin: tp.name, What: "inside a method of a generic type: " + at, Call: fn, Names: []string{fn, "type parameter", "T"}, Unsupp: true}, map[string]string{"u.go": src})
		at = tp.arg("*G[int]")
		if tp.name == "keys" {
			at = "map[string]*G[int]"
		}
		src = "package PKGDIR\n\n" + decls + "func Use(" + params(at) + ") {\n\t" + body + "\n}\n"
		add(caseT{Family: "generics", Plugin: tp.name, What: "fully instantiated generic type: " + at, Call: fn, Names: []string{fn, "G[int]", "G"}, Unsupp: true}, map[string]string{"u.go": src})
	}
	// generic types whose instantiations never repeat (T[int] -> T[[]int] -> T[[][]int] …: go/types of current Go calls this an
	// instantiation cycle, the loader's older go/types does not: the user file is broken, goderive must not hang, F121) and
	// ordinary recursive / parameter-swapping ones, which are legal
	endless := "type T[A any] struct {\n\tnext *T[[]A]\n\tv    A\n}\n\ntype U[A any] struct {\n\tkids []U[*A]\n\tm    map[string]U[[2]A]\n}\n\n"
	legal := "type R[A any] struct {\n\tnext *R[A]\n\tv    []A\n}\n\ntype P[A, B any] struct {\n\tswap *P[B, A]\n\ta    A\n}\n\n"
	for _, pl := range []string{"equal", "compare", "hash", "deepcopy", "clone", "gostring"} {
		tp := pluginByName(pl)
		for _, v := range []struct {
			what, decls, typ string
			userbad          bool
		}{
			{"endlessly unfolding generic struct", endless, "*T[int]", true}, {"endlessly unfolding through slices and maps", endless, "*U[string]", true},
			{"slice of endlessly unfolding structs", endless, "[]T[bool]", true},
			{"ordinary recursive generic struct", legal, "*R[int]", false}, {"generic struct that swaps its parameters", legal, "*P[int, string]", false},
		} {
			fn := prefixes[pl] + "Cyc"
			params, body := tp.call(fn)
			src := "package PKGDIR\n\n" + v.decls + "func Use(" + params(v.typ) + ") {\n\t" + body + "\n}\n"
			add(caseT{Family: "generics", Plugin: pl, What: v.what + ": " + v.typ, Call: fn, Names: []string{fn, "T[", "U[", "R[", "P["}, Unsupp: !v.userbad, UserBad: v.userbad},
				map[string]string{"u.go": src})
		}
	}
	// function-consuming plugins with generic functions as arguments
	gd := "func id[T any](x T) T { return x }\n\nfunc pair[T any](x T) (T, error) { return x, nil }\n\nfunc pred[T comparable](x T) bool { var z T; return x == z }\n\n"
	for _, v := range []struct{ pl, what, sig, call string }{
		{"fmap", "fmap over a slice of a type parameter", "[T any](xs []T)", "FN(id[T], xs)"},
		{"fmap", "fmap with an instantiated generic function", "(xs []int)", "FN(id[int], xs)"},
		{"filter", "filter over a slice of a type parameter", "[T comparable](xs []T)", "FN(pred[T], xs)"},
		{"all", "all with an instantiated generic predicate", "(xs []string)", "FN(pred[string], xs)"},
		{"curry", "curry of a function over type parameters", "[A, B any](f func(A, B) bool)", "FN(f)"},
		{"flip", "flip of a function over type parameters", "[A, B any](f func(A, B) bool)", "FN(f)"},
		{"mem", "mem of a function over a type parameter", "[A comparable](f func(A) int)", "FN(f)"},
		{"compose", "compose of generic stages", "[T any]()", "FN(pair[T], pair[T])"},
		{"do", "do with functions returning a type parameter", "[T any](f func() (T, error))", "FN(f, f)"},
		{"tuple", "tuple of values of type-parameter types", "[A, B any](a A, b B)", "FN(a, b)"},
		{"traverse", "traverse over a slice of a type parameter", "[T any](xs []T)", "FN(pair[T], xs)"},
		{"join", "join of a slice of slices of a type parameter", "[T any](xss [][]T)", "FN(xss)"},
		{"dup", "dup of a chan of a type parameter", "[T any](c <-chan T)", "FN(c)"},
		{"apply", "apply with an argument of type-parameter type", "[A, B any](f func(A, B) bool, b B)", "FN(f, b)"},
		{"toerror", "toerror of a function over a type parameter", "[A any](e error, f func(A) (A, bool))", "FN(e, f)"},
		{"uncurry", "uncurry of a function over type parameters", "[A, B any](f func(A) func(B) bool)", "FN(f)"},
		{"pipeline", "pipeline over type parameters", "[A, B, C any](f func(A) <-chan B, g func(B) <-chan C)", "FN(f, g)"},
	} {
		fn := prefixes[v.pl] + "Gen"
		src := "package PKGDIR\n\n" + gd + "func Use" + v.sig + " {\n\t" + strings.ReplaceAll(v.call, "FN", fn) + "\n}\n"
		add(caseT{Family: "generics", Plugin: v.pl, What: v.what, Call: fn, Names: []string{fn, "type parameter"}, Unsupp: true}, map[string]string{"u.go": src})
	}
}

func genNamedTypes(prefixes map[string]string) {
	decls := `type Step func() (int, error)
type StepS func() (string, error)
type Conv func(int) string
type ConvE func(int) (string, error)
type Pred func(int) bool
type Bin func(int, string) bool
type Cur func(int) func(string) bool
type Stage1 func(int) (string, error)
type Stage2 func(string) (float64, error)
type Src func(int) <-chan string
type Snk func(string) <-chan float64
type Ints []int
type Strs []string
type Grid [][]int
type GridN []Ints
type Set map[int]struct{}
type Reg map[string]int
type Ch chan int
type RCh <-chan int
type Chs []chan int
type Err error

var (
	step  Step
	stepS StepS
	conv  Conv
	convE ConvE
	pred  Pred
	bin   Bin
	cur   Cur
	st1   Stage1
	st2   Stage2
	srcf  Src
	snkf  Snk
	ints  Ints
	strs  Strs
	grid  Grid
	gridN GridN
	set   Set
	reg   Reg
	ch    Ch
	rch   RCh
	chs   Chs
	e     Err
	plain error
)
`
	for _, v := range []struct{ pl, what, call string }{
		{"do", "named function types", "FN(step, stepS)"},
		{"do", "one named, one plain function", "FN(step, func() (string, error) { return \"\", nil })"},
		{"compose", "named stage types", "FN(st1, st2)"},
		{"fmap", "named function, named slice", "FN(conv, ints)"},
		{"fmap", "named function, plain slice", "FN(conv, []int{1})"},
		{"fmap", "plain function, named slice", "FN(func(i int) string { return \"\" }, ints)"},
		{"fmap", "named function, named chan", "FN(conv, ch)"},
		{"fmap", "named function, error form with a named function", "FN(func(s string) int { return 0 }, stepS)"},
		{"join", "named slice of slices", "FN(grid)"},
		{"join", "named slice of named slices", "FN(gridN)"},
		{"join", "named slice of strings", "FN(strs)"},
		{"join", "named chans", "FN(ch, ch)"},
		{"join", "named slice of chans", "FN(chs)"},
		{"join", "named function and named error", "FN(step, e)"},
		{"traverse", "named function, named slice", "FN(convE, ints)"},
		{"filter", "named predicate, named slice", "FN(pred, ints)"},
		{"takewhile", "named predicate, named slice", "FN(pred, ints)"},
		{"all", "named predicate, named slice", "FN(pred, ints)"},
		{"any", "named predicate, plain slice", "FN(pred, []int{1})"},
		{"mem", "named function type", "FN(bin)"},
		{"curry", "named function type", "FN(bin)"},
		{"flip", "named function type", "FN(bin)"},
		{"apply", "named function type", "FN(bin, \"s\")"},
		{"uncurry", "named curried function type", "FN(cur)"},
		{"toerror", "named error, named function", "FN(e, func(a int) (string, bool) { return \"\", true })"},
		{"toerror", "plain error, function of a named type", "FN(plain, ToE(nil))"},
		{"tuple", "values of named types", "FN(ints, reg)"},
		{"pipeline", "named stage types", "FN(srcf, snkf)"},
		{"dup", "named receive-only chan", "FN(rch)"},
		{"dup", "named bidirectional chan", "FN(ch)"},
		{"sort", "named slice", "FN(ints)"},
		{"sort", "named slice of strings", "FN(strs)"},
		{"set", "named slice", "FN(ints)"},
		{"unique", "named slice", "FN(ints)"},
		{"min", "named slice and a constant", "FN(ints, 0)"},
		{"max", "named slice and an element", "FN(ints, ints[0])"},
		{"contains", "named slice", "FN(strs, \"a\")"},
		{"union", "named slices", "FN(ints, ints)"},
		{"union", "named map sets", "FN(set, set)"},
		{"intersect", "named slices", "FN(ints, ints)"},
		{"intersect", "named map sets", "FN(set, set)"},
		{"keys", "named map", "FN(reg)"},
		{"keys", "named map set", "FN(set)"},
		{"equal", "named function values", "FN(step, step)"},
		{"hash", "named chan", "FN(ch)"},
		{"deepcopy", "named slices of slices", "FN(grid, grid)"},
		{"clone", "named map", "FN(reg)"},
		{"gostring", "named slice of named slices", "FN(gridN)"},
		{"compare", "named map sets", "FN(set, set)"},
	} {
		if _, ok := prefixes[v.pl]; !ok {
			continue
		}
		fn := prefixes[v.pl] + "Named"
		src := "package PKGDIR\n\n" + decls + "\ntype ToE func(int) (string, bool)\n\nfunc Use() {\n\t" + strings.ReplaceAll(v.call, "FN", fn) + "\n}\n"
		add(caseT{Family: "namedtypes", Plugin: v.pl, What: v.what + ": " + v.call, Call: fn,
			Names: []string{fn, "Step", "StepS", "Conv", "ConvE", "Pred", "Bin", "Cur", "Stage1", "Stage2", "Ints", "Strs", "Grid", "GridN", "Set", "Reg", "Ch", "RCh", "Chs", "Err", "Src", "Snk", "ToE", "struct{}"}, Unsupp: true},
			map[string]string{"u.go": src})
	}
}

// ---------------------------------------------------------------- families: spread, constants, multivalue, localtypes, chandirs

type nominal struct {
	plugin, decls string
	args          []string
}

// nominalCalls: one valid call per plugin (all 33), arguments are package-level variables / functions
func nominalCalls() []nominal {
	out := []nominal{}
	for _, fp := range fplugins {
		out = append(out, nominal{fp.name, fp.decls, fp.args})
	}
	tdecl := "type T struct {\n\tA int\n\tB []string\n}\n\nvar (\n\tpa, pb *T\n\tm  map[string]*T\n\tss []string\n\tis, js []int\n\tps []*T\n)\n"
	for _, v := range []struct {
		pl   string
		args []string
	}{{"equal", []string{"pa", "pb"}}, {"compare", []string{"pa", "pb"}}, {"hash", []string{"pa"}}, {"deepcopy", []string{"pa", "pb"}},
		{"clone", []string{"pa"}}, {"gostring", []string{"pa"}}, {"keys", []string{"m"}}, {"sort", []string{"ss"}}, {"set", []string{"is"}},
		{"min", []string{"is", "0"}}, {"max", []string{"is", "0"}}, {"contains", []string{"ss", "\"a\""}}, {"intersect", []string{"is", "js"}},
		{"union", []string{"is", "js"}}, {"unique", []string{"ps"}}} {
		out = append(out, nominal{v.pl, tdecl, v.args})
	}
	return out
}

func genSpreadConstMulti(prefixes map[string]string) {
	extra := "\nvar rest []int\n\nvar anys []interface{}\n\nfunc two() (int, string) { return 0, \"\" }\n\nfunc void() {}\n\nfunc three() (int, int, error) { return 0, 0, nil }\n"
	for _, n := range nominalCalls() {
		pre, ok := prefixes[n.plugin]
		if !ok {
			continue
		}
		emit := func(family, what string, args []string) {
			fn := pre + "X"
			src := "package PKGDIR\n\nimport \"unsafe\"\n\nvar _ unsafe.Pointer\n\n" + n.decls + extra + "\nfunc Use() {\n\t" + fn + "(" + strings.Join(args, ", ") + ")\n}\n"
			add(caseT{Family: family, Plugin: n.plugin, What: what + ": " + fn + "(" + strings.Join(args, ", ") + ")", Call: fn,
				Names: []string{fn, "...", "spread", "two()", "void()", "three()", "value", "(int, string)", "()", "(int, int, error)"}, Unsupp: true}, map[string]string{"u.go": src})
		}
		last := append([]string{}, n.args...)
		last[len(last)-1] += "..."
		emit("spread", "last nominal argument spread", last)
		emit("spread", "an extra slice spread after the nominal arguments", append(append([]string{}, n.args...), "rest..."))
		emit("spread", "the only argument is a spread slice", []string{"anys..."})
		emit("spread", "first argument only, spread", []string{n.args[0] + "..."})
		for i := range n.args {
			for _, mv := range []string{"two()", "void()", "three()"} {
				a := append([]string{}, n.args...)
				a[i] = mv
				emit("multivalue", fmt.Sprintf("argument %d is the call %s", i, mv), a)
			}
		}
		emit("multivalue", "the only argument is a two-valued call", []string{"two()"})
		emit("multivalue", "the only argument is a void call", []string{"void()"})
	}
	// untyped constants
	consts := []struct{ kind, a, b string }{
		{"bool", "true", "false"}, {"int", "1", "2"}, {"float", "1.5", "2.5"}, {"complex", "1i", "2i"}, {"rune", "'a'", "'b'"}, {"string", "\"a\"", "\"b\""},
		{"constant expression", "1 + 2", "3 * 4"}, {"typed constant", "int8(1)", "int8(2)"},
	}
	for _, c := range consts {
		for _, v := range []struct{ pl, what string; args []string }{
			{"equal", "two constants", []string{c.a, c.b}}, {"equal", "curried, one constant", []string{c.a}},
			{"compare", "two constants", []string{c.a, c.b}}, {"compare", "curried, one constant", []string{c.a}},
			{"hash", "a constant", []string{c.a}}, {"gostring", "a constant", []string{c.a}}, {"clone", "a constant", []string{c.a}},
			{"min", "two constants", []string{c.a, c.b}}, {"max", "two constants", []string{c.a, c.b}},
			{"tuple", "two constants", []string{c.a, c.b}}, {"tuple", "a constant and a variable", []string{c.a, "x"}},
			{"contains", "constant item", []string{sliceFor(c.kind), c.a}}, {"min", "slice and constant default", []string{sliceFor(c.kind), c.a}},
			{"max", "slice and constant default", []string{sliceFor(c.kind), c.a}},
			{"compare", "a variable and a constant", []string{varFor(c.kind), c.a}}, {"equal", "a constant and a variable", []string{c.a, varFor(c.kind)}},
			{"set", "a constant", []string{c.a}}, {"keys", "a constant", []string{c.a}}, {"sort", "a constant", []string{c.a}}, {"unique", "a constant", []string{c.a}},
			{"deepcopy", "two constants", []string{c.a, c.b}}, {"union", "two constants", []string{c.a, c.b}},
		} {
			fn := prefixes[v.pl] + "Const"
			src := "package PKGDIR\n\nvar (\n\tx  int\n\tf  float64\n\tb  bool\n\tc  complex128\n\tr  rune\n\ts  string\n\ti8 int8\n\txs []int\n\tfs []float64\n\tbs []bool\n\tcs []complex128\n\trs []rune\n\tss []string\n\ti8s []int8\n)\n\nfunc Use() {\n\t" + fn + "(" + strings.Join(v.args, ", ") + ")\n}\n"
			tag := ""
			if v.pl == "clone" {
				tag = "untyped-constant:clone"
			}
			// a typed value next to an untyped constant it is assignable to: must generate and type-check (F113, F122);
			// for compare / min / max only where the kind is ordered (bool and complex orders are goderive's own: F97)
			mixed := strings.Contains(v.what, "variable and a constant") || strings.Contains(v.what, "constant and a variable") ||
				strings.Contains(v.what, "constant default") || v.what == "constant item"
			add(caseT{Family: "constants", Plugin: v.pl, What: "untyped " + c.kind + " constant, " + v.what + ": " + strings.Join(v.args, ", "), Call: fn,
				Names: []string{fn, "untyped", "constant", "int", "float64", "bool", "string", "complex128", "rune", "int32", "int8"}, Unsupp: !mixed, MustOK: mixed, Tag: tag}, map[string]string{"u.go": src})
		}
	}
}

// a variable / slice whose type the constant of that kind is assignable to (so that the user's call is well-typed)
func varFor(kind string) string {
	return map[string]string{"bool": "b", "int": "x", "float": "f", "complex": "c", "rune": "r", "string": "s", "constant expression": "x", "typed constant": "i8"}[kind]
}

func sliceFor(kind string) string {
	return map[string]string{"bool": "bs", "int": "xs", "float": "fs", "complex": "cs", "rune": "rs", "string": "ss", "constant expression": "xs", "typed constant": "i8s"}[kind]
}

func genMinMaxConst(prefixes map[string]string) {
	for _, pl := range []string{"min", "max"} {
		fn := prefixes[pl]
		for _, v := range []struct{ what, body string }{
			{"one name for (fs, 0) and (fs, 0.5)", "_ = FN(fs, 0)\n\t_ = FN(fs, 0.5)"},
			{"one name for (xs, 0) and (xs, y)", "_ = FN(xs, 0)\n\t_ = FN(xs, y)"},
			{"two-value form with a constant", "_ = FNTwo(y, 0)\n\t_ = FNTwo(1, y)"},
			{"two-value form, float variable and int constant", "_ = FNTwo(f, 2)"},
			{"named element type and constants", "_ = FND(ds, 0)\n\t_ = FND(ds, 1)"},
		} {
			src := "package PKGDIR\n\ntype D int\n\nvar (\n\txs []int\n\tfs []float64\n\tds []D\n\ty  int\n\tf  float64\n)\n\nfunc Use() {\n\t" + strings.ReplaceAll(v.body, "FN", fn) + "\n}\n"
			add(caseT{Family: "constants", Plugin: pl, What: v.what, Call: fn, Names: []string{fn}, MustOK: true}, map[string]string{"u.go": src})
		}
	}
	for _, pl := range []string{"equal", "compare"} {
		fn := prefixes[pl]
		src := "package PKGDIR\n\nvar (\n\tf float64\n\ts string\n)\n\nfunc Use() {\n\t_ = " + fn + "(f, 2)\n\t_ = " + fn + "(3, f)\n\t_ = " + fn + "S(s, \"a\")\n}\n"
		add(caseT{Family: "constants", Plugin: pl, What: "a typed value next to an untyped constant, both orders, one name", Call: fn, Names: []string{fn}, MustOK: true}, map[string]string{"u.go": src})
	}
}

func genLocalTypes(prefixes map[string]string) {
	locals := []struct{ what, decl, typ, val string }{
		{"local struct", "type L struct{ A []int }", "*L", "&L{}"},
		{"local struct by value", "type L struct{ A []int }", "L", "L{}"},
		{"local named slice", "type L []int", "L", "L{1}"},
		{"local named map", "type L map[string][]int", "L", "L{}"},
		{"slice of a local struct", "type L struct{ A []int }", "[]L", "[]L{}"},
		{"map to a local struct", "type L struct{ A []int }", "map[string]L", "map[string]L{}"},
		{"local type inside a package-level struct literal type", "type L struct{ A []int }", "struct{ F L }", "struct{ F L }{}"},
		{"local named func", "type L func(int) string", "L", "L(nil)"},
		{"local named int", "type L int", "L", "L(1)"},
	}
	for _, tp := range typedPlugins() {
		for _, l := range locals {
			fn := prefixes[tp.name] + "Local"
			var call string
			at := l.val
			switch {
			case tp.arg("X") == "[]X":
				at = "[]" + l.typ + "{" + l.val + "}"
			case tp.name == "keys":
				at = "map[string]" + l.typ + "{}"
			}
			_, body := tp.call(fn)
			call = strings.ReplaceAll(strings.ReplaceAll(body, "a[0]", "v[0]"), "(a", "(v")
			call = strings.ReplaceAll(call, ", b)", ", w)")
			src := "package PKGDIR\n\nfunc Use() {\n\t" + l.decl + "\n\tv, w := " + at + ", " + at + "\n\t_, _ = v, w\n\t" + call + "\n}\n"
			add(caseT{Family: "localtypes", Plugin: tp.name, What: l.what + ": " + at, Call: fn, Names: []string{fn, "L", "inside a function", "local"}, Unsupp: true},
				map[string]string{"u.go": src})
		}
		// legit: a local named type whose values are assignable to the parameter of the function generated for a package-level type
		if tp.name == "equal" || tp.name == "compare" || tp.name == "hash" {
			fn := prefixes[tp.name] + "Shared"
			at := tp.arg("int")
			if tp.name == "equal" || tp.name == "compare" || tp.name == "hash" {
				at = "[]int"
			}
			params, body := tp.call(fn)
			_, body2 := tp.call(fn)
			body2 = strings.ReplaceAll(strings.ReplaceAll(strings.ReplaceAll(body2, "a[0]", "v[0]"), "(a", "(v"), ", b)", ", w)")
			src := "package PKGDIR\n\nfunc Top(" + params(at) + ") {\n\t" + body + "\n}\n\nfunc Use() {\n\ttype L " + at + "\n\tv, w := L{1}, L{2}\n\t_, _ = v, w\n\t" + body2 + "\n}\n"
			add(caseT{Family: "localtypes", Plugin: tp.name, What: "local named type served by the function of a package-level type (" + at + ")", Call: fn, Names: []string{fn, "L"}, MustOK: true},
				map[string]string{"u.go": src})
		}
	}
	for _, v := range []struct{ pl, call string }{
		{"fmap", "FN(func(l L) int { return 0 }, []L{})"}, {"filter", "FN(func(l L) bool { return true }, []L{})"},
		{"tuple", "FN(L{}, 1)"}, {"mem", "FN(func(l L) int { return 0 })"}, {"curry", "FN(func(l L, i int) bool { return true })"},
		{"join", "FN([][]L{})"}, {"dup", "FN(make(<-chan L))"}, {"compose", "FN(func() (L, error) { return L{}, nil }, func(l L) (int, error) { return 0, nil })"},
		{"do", "FN(func() (L, error) { return L{}, nil }, func() (int, error) { return 0, nil })"}, {"traverse", "FN(func(l L) (int, error) { return 0, nil }, []L{})"},
	} {
		fn := prefixes[v.pl] + "Local"
		src := "package PKGDIR\n\nfunc Use() {\n\ttype L struct{ A []int }\n\t" + strings.ReplaceAll(v.call, "FN", fn) + "\n}\n"
		add(caseT{Family: "localtypes", Plugin: v.pl, What: "local struct in " + v.call, Call: fn, Names: []string{fn, "L", "inside a function"}, Unsupp: true}, map[string]string{"u.go": src})
	}
}

func genChanDirs(prefixes map[string]string) {
	// results used with their expected types: a channel type printed after `chan` needs its parentheses
	for _, v := range []struct{ pl, what, decls, use string }{
		{"join", "slice of receive-only channels, result used", "var cs []<-chan int", "var out <-chan int = FN(cs)\n\t_ = out"},
		{"join", "two receive-only channels, result used", "var c1, c2 <-chan int", "var out <-chan int = FN(c1, c2)\n\t_ = out"},
		{"join", "receive-only channel of receive-only channels, result used", "var cc <-chan (<-chan int)", "var out <-chan int = FN(cc)\n\t_ = out"},
		{"join", "channel of receive-only channels, result used", "var cc chan (<-chan int)", "var out <-chan int = FN(cc)\n\t_ = out"},
		{"join", "receive-only channel of channels, result used", "var cc <-chan chan int", "var out <-chan int = FN(cc)\n\t_ = out"},
		{"join", "slice of receive-only channels of receive-only channels", "var cs []<-chan (<-chan string)", "out := FN(cs)\n\tvar c <-chan string = <-out\n\t_ = c"},
		{"dup", "receive-only channel of receive-only channels, results used", "var cc <-chan (<-chan int)", "a, b := FN(cc)\n\tvar x, y <-chan int = <-a, <-b\n\t_, _ = x, y"},
		{"fmap", "receive-only channel of receive-only channels through fmap", "var cc <-chan (<-chan int)\n\nfunc f(c <-chan int) <-chan int { return c }", "out := FN(f, cc)\n\tvar c <-chan int = <-out\n\t_ = c"},
		{"pipeline", "stages over receive-only channels of channels", "func f(a int) <-chan (<-chan string) { return nil }\n\nfunc g(s <-chan string) <-chan float64 { return nil }", "h := FN(f, g)\n\tvar out <-chan float64 = h(1)\n\t_ = out"},
	} {
		fn := prefixes[v.pl] + "Paren"
		src := "package PKGDIR\n\n" + v.decls + "\n\nfunc Use() {\n\t" + strings.ReplaceAll(v.use, "FN", fn) + "\n}\n"
		add(caseT{Family: "chandirs", Plugin: v.pl, What: v.what, Call: fn, Names: []string{fn, "chan"}, Unsupp: true}, map[string]string{"u.go": src})
	}
	dirs := []string{"chan", "<-chan", "chan<-"}
	emit := func(pl, what, decls, call string) {
		fn := prefixes[pl] + "Dir"
		src := "package PKGDIR\n\n" + decls + "\nfunc Use() {\n\t" + strings.ReplaceAll(call, "FN", fn) + "\n}\n"
		tag := ""
		if strings.Contains(decls+call, "chan<-") && (pl == "fmap" || pl == "join") {
			tag = "send-only-chan:" + pl
		}
		add(caseT{Family: "chandirs", Plugin: pl, What: what, Call: fn, Names: []string{fn, "chan", "send"}, Unsupp: true, Tag: tag}, map[string]string{"u.go": src})
	}
	for _, d := range dirs {
		emit("dup", "dup of "+d+" int", "var c "+d+" int\n", "FN(c)")
		emit("fmap", "fmap over "+d+" int", "var c "+d+" int\n\nfunc f(i int) string { return \"\" }\n", "FN(f, c)")
		emit("join", "join of a slice of "+d+" int", "var cs []"+d+" int\n", "FN(cs)")
		for _, d2 := range dirs {
			emit("join", "join of "+d+" ("+d2+" int)", "var cc "+d+" ("+d2+" int)\n", "FN(cc)")
			emit("join", "join of a "+d+" int and a "+d2+" int", "var c1 "+d+" int\n\nvar c2 "+d2+" int\n", "FN(c1, c2)")
			emit("pipeline", "pipeline of functions returning "+d+" string and "+d2+" float64",
				"func f(a int) "+d+" string { return nil }\n\nfunc g(s string) "+d2+" float64 { return nil }\n", "FN(f, g)")
			emit("fmap", "fmap of a function returning a "+d2+" chan over "+d+" int", "var c "+d+" int\n\nfunc f(i int) "+d2+" string { return nil }\n", "FN(f, c)")
		}
		emit("equal", "equal of "+d+" int", "var a, b "+d+" int\n", "FN(a, b)")
		emit("tuple", "tuple with a "+d+" int", "var c "+d+" int\n", "FN(c, 1)")
		emit("mem", "mem of a function over "+d+" int", "func f(c "+d+" int) int { return 0 }\n", "FN(f)")
	}
}

// ---------------------------------------------------------------- family: xtest

func genXTest() {
	proper := "package PKGDIR\n\ntype T struct {\n\tA []int\n\tB map[string]*T\n}\n\nfunc Eq(a, b *T) bool { return deriveEqual(a, b) }\n\nfunc H(a *T) uint64 { return deriveHash(a) }\n"
	xNoCalls := "package PKGDIR_test\n\nimport (\n\t\"testing\"\n\n\tp \"bad/PKGDIR\"\n)\n\nfunc TestEq(t *testing.T) {\n\tif !p.Eq(&p.T{}, &p.T{}) {\n\t\tt.Fatal()\n\t}\n}\n"
	xCalls := "package PKGDIR_test\n\nimport \"testing\"\n\nfunc TestX(t *testing.T) {\n\tif !deriveEqual([]int{1}, []int{1}) {\n\t\tt.Fatal()\n\t}\n}\n"
	inTest := "package PKGDIR\n\nimport \"testing\"\n\nfunc TestIn(t *testing.T) {\n\tif deriveCompare([]string{\"a\"}, []string{\"b\"}) >= 0 {\n\t\tt.Fatal()\n\t}\n}\n"
	stale := "// Code generated by goderive DO NOT EDIT.\n\npackage PKGDIR\n\nfunc deriveOld() {}\n"
	// without derive calls in the external test package: exit 0 and the package builds (MustOK); with calls there:
	// a package that type-checks, or a refusal whose message names the call or the external test package
	x := func(what string, files map[string]string) {
		withCalls := strings.Contains(files["x_test.go"], "derive")
		add(caseT{Family: "xtest", What: what, Call: "deriveEqual", Names: []string{"deriveEqual", "deriveHash", "deriveCompare", "_test", "external test"},
			MustOK: !withCalls, Unsupp: withCalls, Tag: "external-test-package"}, files)
	}
	x("external test package without derive calls", map[string]string{"p.go": proper, "x_test.go": xNoCalls})
	x("external test package without derive calls, derived.gen.go already present", map[string]string{"p.go": proper, "x_test.go": xNoCalls, "derived.gen.go": stale})
	x("external test package without derive calls, next to in-package test files with calls", map[string]string{"p.go": proper, "in_test.go": inTest, "x_test.go": xNoCalls})
	x("external test package with derive calls of its own", map[string]string{"p.go": proper, "x_test.go": xCalls})
	x("external test package with derive calls, package proper without any", map[string]string{"p.go": "package PKGDIR\n\nfunc X() int { return 1 }\n", "x_test.go": xCalls})
	x("external test package only (no other files)", map[string]string{"x_test.go": xCalls})
	x("in-package test files with calls only (control)", map[string]string{"p.go": proper, "in_test.go": inTest})
}

// ---------------------------------------------------------------- family: mapkeys
// deepcopy / clone of a map whose KEY cannot be copied by assignment (X-C09-B): a key that is or holds an interface or a
// channel is refused with a message; a key that holds pointers (array of pointers, named struct with a pointer) is copied
// into a key of its own (pinned to what the tool does: an unnamed struct key holding a pointer is refused)

func genMapKeys(prefixes map[string]string) {
	type keyT struct {
		decl, typ string // declaration (may be empty) and type text
		refused   bool
		names     []string
	}
	keys := []keyT{
		{"", "interface{}", true, []string{"interface{}", "interface"}},
		{"", "any", true, []string{"interface{}", "any", "interface"}},
		{"", "error", true, []string{"error"}},
		{"", "chan int", true, []string{"chan int"}},
		{"", "<-chan string", true, []string{"<-chan string", "chan string"}},
		{"", "[2]interface{}", true, []string{"interface{}"}},
		{"", "[1]chan int", true, []string{"chan int"}},
		{"type K interface{ M() }\n\n", "K", true, []string{"K", "interface"}},
		{"type K chan int\n\n", "K", true, []string{"K", "chan int"}},
		{"type K struct{ C chan int }\n\n", "K", true, []string{"K", "chan int"}},
		{"type K struct {\n\tA int\n\tI interface{}\n}\n\n", "K", true, []string{"K", "interface{}"}},
		{"type K struct{ In struct{ E error } }\n\n", "K", true, []string{"K", "error"}},
		{"", "struct{ P *int }", true, []string{"struct{P *int}", "struct"}},
		{"", "struct{ I interface{} }", true, []string{"struct{I interface{}}", "interface{}", "struct"}},
		{"", "[1]*int", false, nil},
		{"", "[2][1]*string", false, nil},
		{"type K struct{ P *int }\n\n", "K", false, nil},
		{"type K [1]*int\n\n", "K", false, nil},
		{"type K struct{ A [1]*int }\n\n", "K", false, nil},
		{"type K struct {\n\tN string\n\tIn struct{ P *float64 }\n}\n\n", "K", true, []string{"K", "struct{P *float64}"}}, // (the unnamed struct inside is refused everywhere)
		{"type In struct{ P *float64 }\n\ntype K struct {\n\tN  string\n\tIn In\n}\n\n", "K", false, nil},
		// controls: keys that an assignment copies
		{"", "string", false, nil},
		{"type K struct {\n\tA int\n\tB string\n}\n\n", "K", false, nil},
	}
	for _, pn := range []string{"deepcopy", "clone"} {
		fn := prefixes[pn]
		for _, k := range keys {
			for _, pos := range []string{"top", "field", "element", "value-of-map", "behind-pointer"} {
				var arg, extra string
				switch pos {
				case "top":
					arg = "map[" + k.typ + "]int"
				case "field":
					extra = "type S struct {\n\tN int\n\tM map[" + k.typ + "][]string\n}\n\n"
					arg = "*S"
				case "element":
					arg = "[]map[" + k.typ + "]int"
				case "value-of-map":
					arg = "map[string]map[" + k.typ + "]bool"
				case "behind-pointer":
					arg = "*map[" + k.typ + "]int"
				}
				var use string
				if pn == "deepcopy" {
					use = "func Use(dst, src " + arg + ") { " + fn + "(dst, src) }\n"
				} else {
					use = "func Use(src " + arg + ") " + arg + " { return " + fn + "(src) }\n"
				}
				c := caseT{Family: "mapkeys", Plugin: pn, What: fmt.Sprintf("map key %s%s @ %s", k.typ, map[bool]string{true: " (" + strings.TrimSpace(strings.ReplaceAll(k.decl, "\n", " ")) + ")", false: ""}[k.decl != ""], pos), Call: fn}
				if k.refused {
					c.MustFail, c.Unsupp, c.Tag = true, true, "map-key-not-copyable:"+pn
					c.Names = append([]string{fn}, k.names...)
				} else {
					c.MustOK = true
					c.Names = []string{fn, "K"}
					if strings.Contains(k.decl+k.typ, "*") {
						c.Tag = "map-key-holding-pointers:" + pn
						c.Wants = []string{"_key " + k.typ + "\n"} // var dst_key <type>: a key of its own
					}
				}
				add(c, map[string]string{"u.go": "package PKGDIR\n\n" + k.decl + extra + use})
			}
		}
	}
}

// ---------------------------------------------------------------- family: nonascii

func genNonASCII(prefixes map[string]string) {
	// Δ Ω: 2 bytes; Ḁ: 3 bytes; 𝐀 𐐀: 4 bytes (all upper case letters: exported)
	names := [][]string{{"Δ"}, {"Ḁ"}, {"𝐀"}, {"Δ", "Ω"}, {"Ḁ", "𐐀"}, {"Δ", "Ḁ", "𝐀"}, {"A", "Δ"}, {"Δ", "A"}, {"𝐀", "𝐀", "𝐀"}}
	unders := []string{"[]int", "[]float64", "map[string]int", "[]string"}
	for _, tp := range typedPlugins() {
		switch tp.name {
		case "equal", "compare", "hash", "deepcopy", "clone", "gostring":
		default:
			continue
		}
		for _, letters := range names {
			full := strings.Join(letters, "")
			for _, variant := range []string{"two-packages", "three-packages", "reserved-by-user-functions", "local-and-imported"} {
				files := map[string]string{}
				fn := prefixes[tp.name]
				var fields, imports, extra []string
				fields = append(fields, "L []uint16") // takes prefix_ ; not the underlying type of any named type below
				npk := map[string]int{"two-packages": 2, "three-packages": 3, "reserved-by-user-functions": 2, "local-and-imported": 2}[variant]
				for k := 1; k <= npk; k++ {
					pk := fmt.Sprintf("p%d", k)
					var sb strings.Builder
					sb.WriteString("package " + pk + "\n\n")
					if k == 1 && variant != "reserved-by-user-functions" {
						// every proper letter prefix of the name is a type of its own in the first package
						for n := 1; n < len(letters); n++ {
							pre := strings.Join(letters[:n], "")
							if pre == full {
								continue
							}
							fmt.Fprintf(&sb, "type %s %s\n\n", pre, unders[(n+1)%len(unders)])
							fields = append(fields, fmt.Sprintf("P%d %s.%s", n, pk, pre))
						}
					}
					fmt.Fprintf(&sb, "type %s %s\n", full, unders[k%len(unders)])
					files[pk+"/"+pk+".go"] = sb.String()
					imports = append(imports, fmt.Sprintf("\t%s \"bad/PKGDIR/%s\"", pk, pk))
					fields = append(fields, fmt.Sprintf("F%d %s.%s", k, pk, full))
				}
				if variant == "local-and-imported" {
					extra = append(extra, fmt.Sprintf("type %s []bool\n", full))
					fields = append(fields, "Loc "+full)
				}
				if variant == "reserved-by-user-functions" {
					var calls []string
					for n := 1; n <= len(letters); n++ {
						name := fn + "_" + strings.Join(letters[:n], "")
						dup := false
						for _, c := range calls {
							if c == name {
								dup = true
							}
						}
						if dup {
							continue
						}
						calls = append(calls, name)
						extra = append(extra, fmt.Sprintf("func %s() {}\n", name))
					}
					body := ""
					for _, c := range calls {
						body += "\t" + c + "()\n"
					}
					extra = append(extra, "func Reserved() {\n"+body+"}\n")
				}
				params, body := tp.call(fn)
				src := "package PKGDIR\n\nimport (\n" + strings.Join(imports, "\n") + "\n)\n\ntype S struct {\n\t" + strings.Join(fields, "\n\t") + "\n}\n\n" +
					strings.Join(extra, "\n") + "\nfunc Use(" + params("*S") + ") {\n\t" + body + "\n}\n"
				files["u.go"] = src
				add(caseT{Family: "nonascii", Plugin: tp.name, What: fmt.Sprintf("type name %s (%d letters, %d bytes), %s", full, len(letters), len(full), variant),
					Call: fn, Names: []string{fn, full}, MustOK: true}, files)
			}
		}
	}
	// -autoname makes up a name from the first LETTER of the type name once prefix and prefix_ are taken (W-C10-B)
	for _, tp := range typedPlugins() {
		switch tp.name {
		case "equal", "compare", "hash", "deepcopy", "clone", "gostring":
		default:
			continue
		}
		fn := prefixes[tp.name]
		for _, tn := range []string{"Ärger", "Ünit", "世界", "Δ", "𝐀b"} {
			for _, how := range []string{"three-calls", "user-function"} {
				params, body := tp.call(fn)
				src := "package PKGDIR\n\nimport (\n\t\"fmt\"\n\t\"strings\"\n)\n\nvar _ = fmt.Sprint\n\nvar _ = strings.ToUpper\n\ntype " + tn + " struct {\n\tA int\n\tB string\n}\n\ntype S struct{ L []int }\n\n" +
					"func One(" + params("*S") + ") {\n\t" + body + "\n}\n\n"
				if how == "three-calls" {
					src += "func Two(" + params("[]int") + ") {\n\t" + body + "\n}\n\n"
				} else {
					src += "func " + fn + "_() {}\n\nfunc callIt() { " + fn + "_() }\n\n"
				}
				src += "func Three(" + params(tn) + ") {\n\t" + body + "\n}\n"
				add(caseT{Family: "nonascii", Plugin: tp.name, What: fmt.Sprintf("-autoname, name made up from the first letter of %s (%s)", tn, how),
					Call: fn, Names: []string{fn, tn}, MustOK: true, PreArgs: []string{"-autoname"}}, map[string]string{"u.go": src})
			}
		}
	}
}

// ---------------------------------------------------------------- type-check oracle

type tcOut struct {
	Pkg   string   `json:"pkg"`
	Parse []string `json:"parse"`
	Types []string `json:"types"`
}

func runTypecheck(dirs []string) {
	must(os.Chdir(*root))
	os.Setenv("GOFLAGS", "-mod=mod")
	os.Setenv("GOPROXY", "off")
	fset := token.NewFileSet()
	imp := importer.ForCompiler(fset, "source", nil).(types.ImporterFrom)
	enc := json.NewEncoder(os.Stdout)
	abs, _ := filepath.Abs(".")
	for _, d := range dirs {
		o := tcOut{Pkg: d, Parse: []string{}, Types: []string{}}
		ents, err := os.ReadDir(d)
		if err != nil {
			o.Parse = append(o.Parse, err.Error())
			enc.Encode(o)
			continue
		}
		var files []*ast.File
		for _, e := range ents {
			n := e.Name()
			if e.IsDir() || !strings.HasSuffix(n, ".go") || strings.HasSuffix(n, "_test.go") {
				continue
			}
			f, err := parser.ParseFile(fset, filepath.Join(d, n), nil, parser.AllErrors)
			if err != nil {
				o.Parse = append(o.Parse, n+": "+firstLine(err.Error()))
			}
			if f != nil {
				files = append(files, f)
			}
		}
		conf := types.Config{
			Importer: fromDir{imp, filepath.Join(abs, d)},
			Error: func(err error) {
				msg := err.Error()
				if te, ok := err.(types.Error); ok {
					msg = filepath.Base(te.Fset.Position(te.Pos).Filename) + ": " + te.Msg
				}
				if len(o.Types) < 20 {
					o.Types = append(o.Types, msg)
				}
			},
		}
		if len(files) > 0 {
			conf.Check("bad/"+d, fset, files, nil)
		}
		enc.Encode(o)
	}
}

type fromDir struct {
	i   types.ImporterFrom
	dir string
}

func (f fromDir) Import(p string) (*types.Package, error) { return f.i.ImportFrom(p, f.dir, 0) }

func firstLine(s string) string {
	if i := strings.Index(s, "\n"); i >= 0 {
		return s[:i]
	}
	return s
}

func main() {
	flag.Parse()
	if *typecheck {
		runTypecheck(flag.Args())
		return
	}
	if *out == "" {
		must(fmt.Errorf("-out required"))
	}
	r := rand.New(rand.NewSource(*seed))
	plugins := pluginsOfMain()
	prefixes := map[string]string{}
	for _, p := range plugins {
		prefixes[p] = prefixOf(p)
	}
	must(os.MkdirAll(*out, 0o755))
	must(os.WriteFile(filepath.Join(*out, "go.mod"), []byte("module bad\n\ngo 1.24\n"), 0o644))
	genBroken()
	genAliasClash()
	genUnresolved(prefixes)
	genSpreadConstMulti(prefixes)
	genLocalTypes(prefixes)
	genMinMaxConst(prefixes)
	genChanDirs(prefixes)
	genMapKeys(prefixes)
	genGenerics(prefixes)
	genNamedTypes(prefixes)
	genDiagnostics(prefixes)
	genXTest()
	genBlankFields(prefixes)
	genSelfPointer(prefixes)
	genNilArgs(prefixes)
	genNonASCII(prefixes)
	genImportedTwin(prefixes)
	genTwins(prefixes)
	genUnordered(prefixes)
	genBadArgs(prefixes)
	genUnsupported(r, prefixes)
	covered := map[string]bool{}
	for _, c := range cases {
		if c.Plugin != "" {
			covered[c.Plugin] = true
		}
	}
	var missing []string
	for _, p := range plugins {
		if !covered[p] {
			missing = append(missing, p)
		}
	}
	b, _ := json.MarshalIndent(cases, "", " ")
	must(os.WriteFile(filepath.Join(*out, "cases.json"), b, 0o644))
	stats["cases"] = len(cases)
	stats["plugins_in_main"] = len(plugins)
	stats["plugins_covered"] = len(covered)
	st := map[string]interface{}{"counts": stats, "plugins_not_covered": missing}
	b, _ = json.MarshalIndent(st, "", " ")
	must(os.WriteFile(filepath.Join(*out, "stats.json"), b, 0o644))
}
