// genconc prepares the T4 / T5 ties of C19 and C20 from the goderive binary built from the current
// tree:
//
//  1. writes a small fixed module using every concurrent combinator form and runs the REAL goderive on it;
//  2. extracts the channel-operation skeleton of every emitted function (go/ast + go/types) and writes
//     them as Lean data (-lean FILE) and as text (skeletons.txt);
//  3. rewrites the emitted files (and the wrappers) onto verifharness/vsched into vs/…;
//  4. writes the two programs cmd/vsrun (rewritten code + scheduler scenarios) and cmd/racerun
//     (unrewritten emitted code + real-runtime stress, to be built with -race).
//
// usage: genconc -goderive BIN -work DIR -harness PATH [-lean FILE]
package main

import (
	"flag"
	"fmt"
	"os"
	"os/exec"
	"path/filepath"
	"strings"

	"verifharness/conc/rewrite"
)

const goMod = `module concwork

go 1.24

require verifharness v0.0.0

replace verifharness => %s
`

const pkgA = `package concpkg

func FmapChan(f func(int) int, in <-chan int) <-chan int { return deriveFmapC(f, in) }

// Fmap with a channel-valued function (the function Pipeline is built on, called directly)
func FmapCh(f func(int) <-chan int, in <-chan int) <-chan (<-chan int) { return deriveFmap(f, in) }
func JoinCC(in <-chan (<-chan int)) <-chan int          { return deriveJoinCC(in) }
func JoinSC(in []<-chan int) <-chan int                 { return deriveJoinSC(in) }
func JoinV2(c0, c1 <-chan int) <-chan int               { return deriveJoinV2(c0, c1) }
func JoinV5(c0, c1, c2, c3, c4 <-chan int) <-chan int   { return deriveJoinV5(c0, c1, c2, c3, c4) }
func Pipeline(f func(int) <-chan int, g func(int) <-chan int) func(int) <-chan int {
	return derivePipelineP(f, g)
}
func DupR(c <-chan int) (<-chan int, <-chan int)       { return deriveDupR(c) }

// pipeline whose stages return BIDIRECTIONAL channels (F95): built on the join of <-chan (chan int) and an fmap
func FmapPb(f func(int) chan int, in <-chan int) <-chan (chan int) { return deriveFmapPb(f, in) }
func JoinPb(in <-chan (chan int)) <-chan int                      { return deriveJoinPb(in) }
func PipelineB(f func(int) chan int, g func(int) chan int) func(int) <-chan int {
	return derivePipelineB(f, g)
}
func Do2(f0, f1 func() (int, error)) (int, int, error) { return deriveDo2(f0, f1) }
func Do3(f0, f1, f2 func() (int, error)) (int, int, int, error) {
	return deriveDo3(f0, f1, f2)
}
func Do4(f0, f1, f2, f3 func() (int, error)) (int, int, int, int, error) {
	return deriveDo4(f0, f1, f2, f3)
}
`

const pkgB = `package concpkgb

func JoinCCb(in chan (<-chan int)) <-chan int  { return deriveJoinCCb(in) }
func JoinCCbb(in chan (chan int)) <-chan int   { return deriveJoinCCbb(in) } // bidirectional inner channels (F94)
func JoinSCb(in []chan int) <-chan int         { return deriveJoinSCb(in) }
func JoinV3(c0, c1, c2 chan int) <-chan int    { return deriveJoinV3(c0, c1, c2) }
func JoinV6(c0, c1, c2, c3, c4, c5 chan int) <-chan int {
	return deriveJoinV6(c0, c1, c2, c3, c4, c5)
}
func DupB(c chan int) (<-chan int, <-chan int) { return deriveDupB(c) }

// a second package with two Do calls of different arities, the larger one first
func Do3b(f0, f1, f2 func() (int, error)) (int, int, int, error) { return deriveDo3b(f0, f1, f2) }
func Do2b(f0, f1 func() (int, error)) (int, int, error)         { return deriveDo2b(f0, f1) }

// functions of different result types
func Do3m(f0 func() (int, error), f1 func() (int64, error), f2 func() (string, error)) (int, int64, string, error) {
	return deriveDo3m(f0, f1, f2)
}
`

// streams whose ELEMENT TYPE IS AN INTERFACE (items may be the nil interface value or a typed-nil pointer)
const pkgI = `package concpkgi

func FmapA(f func(interface{}) interface{}, in <-chan interface{}) <-chan interface{} {
	return deriveFmapA(f, in)
}
func DupA(c <-chan interface{}) (<-chan interface{}, <-chan interface{}) { return deriveDupA(c) }
func JoinCCe(in <-chan (<-chan error)) <-chan error                     { return deriveJoinCCe(in) }
func JoinSCe(in []<-chan error) <-chan error                            { return deriveJoinSCe(in) }
func JoinV2e(c0, c1 <-chan error) <-chan error                          { return deriveJoinV2e(c0, c1) }
func FmapPe(f func(error) <-chan error, in <-chan error) <-chan (<-chan error) {
	return deriveFmapPe(f, in)
}
func PipelineE(f func(int) <-chan error, g func(error) <-chan error) func(int) <-chan error {
	return derivePipelineE(f, g)
}
`

const vsMain = `package main

import (
	a "concwork/vs/concpkg"
	b "concwork/vs/concpkgb"
	i "concwork/vs/concpkgi"
	"verifharness/conc"
	"verifharness/vsched"
)

func main() {
	conc.MainV(&conc.VFuncs{
		Fmap:     map[string]func(func(int) int, conc.VC) conc.VC{"FmapChan": a.FmapChan},
		FmapCh:   a.FmapCh,
		Dup:      map[string]func(conc.VC) (conc.VC, conc.VC){"DupR": a.DupR, "DupB": b.DupB},
		JoinCC:   map[string]func(*vsched.Chan[conc.VC]) conc.VC{"JoinCC": a.JoinCC, "JoinCCb": b.JoinCCb, "JoinCCbb": b.JoinCCbb},
		JoinSC:   map[string]func([]conc.VC) conc.VC{"JoinSC": a.JoinSC, "JoinSCb": b.JoinSCb},
		JoinV: map[string]func([]conc.VC) conc.VC{
			"JoinV2": func(c []conc.VC) conc.VC { return a.JoinV2(c[0], c[1]) },
			"JoinV3": func(c []conc.VC) conc.VC { return b.JoinV3(c[0], c[1], c[2]) },
			"JoinV5": func(c []conc.VC) conc.VC { return a.JoinV5(c[0], c[1], c[2], c[3], c[4]) },
			"JoinV6": func(c []conc.VC) conc.VC { return b.JoinV6(c[0], c[1], c[2], c[3], c[4], c[5]) }},
		Pipeline:  a.Pipeline,
		PipelineB: a.PipelineB,
		A:         conc.VOps[any]{Fmap: i.FmapA, Dup: i.DupA},
		E: conc.VOps[error]{JoinCC: i.JoinCCe, JoinSC: i.JoinSCe, Pipeline: i.PipelineE,
			JoinV: func(c []*vsched.Chan[error]) *vsched.Chan[error] { return i.JoinV2e(c[0], c[1]) }},
		Do2: map[string]func(f0, f1 func() (int, error)) (int, int, error){"Do2": a.Do2, "Do2b": b.Do2b},
		Do3: map[string]func(f0, f1, f2 func() (int, error)) (int, int, int, error){"Do3": a.Do3, "Do3b": b.Do3b,
			"Do3m": func(f0, f1, f2 func() (int, error)) (int, int, int, error) { return conc.Mixed3(b.Do3m, f0, f1, f2) }},
		Do4: a.Do4,
	})
}
`

const raceMain = `package main

import (
	a "concwork/concpkg"
	b "concwork/concpkgb"
	i "concwork/concpkgi"
	"verifharness/conc"
)

func main() {
	conc.MainR(&conc.RFuncs{
		Fmap:   map[string]func(func(int) int, <-chan int) <-chan int{"FmapChan": a.FmapChan},
		FmapCh: a.FmapCh,
		Dup: map[string]func(chan int) (<-chan int, <-chan int){
			"DupR": func(c chan int) (<-chan int, <-chan int) { return a.DupR(c) }, "DupB": b.DupB},
		JoinCC: map[string]func(chan (<-chan int)) <-chan int{
			"JoinCC": func(c chan (<-chan int)) <-chan int { return a.JoinCC(c) }, "JoinCCb": b.JoinCCb},
		JoinSC: map[string]func([]chan int) <-chan int{
			"JoinSC": func(in []chan int) <-chan int {
				if in == nil {
					return a.JoinSC(nil) // keep a nil slice nil
				}
				r := make([]<-chan int, len(in))
				for i, c := range in {
					r[i] = c
				}
				return a.JoinSC(r)
			}, "JoinSCb": b.JoinSCb},
		JoinV: map[string]func([]chan int) <-chan int{
			"JoinV2": func(c []chan int) <-chan int { return a.JoinV2(c[0], c[1]) },
			"JoinV3": func(c []chan int) <-chan int { return b.JoinV3(c[0], c[1], c[2]) },
			"JoinV5": func(c []chan int) <-chan int { return a.JoinV5(c[0], c[1], c[2], c[3], c[4]) },
			"JoinV6": func(c []chan int) <-chan int { return b.JoinV6(c[0], c[1], c[2], c[3], c[4], c[5]) }},
		Pipeline:  a.Pipeline,
		PipelineB: a.PipelineB,
		JoinCCbb:  b.JoinCCbb,
		A: conc.ROps[any]{Fmap: i.FmapA, Dup: func(c chan any) (<-chan any, <-chan any) { return i.DupA(c) }},
		E: conc.ROps[error]{Pipeline: i.PipelineE,
			JoinCC: func(c chan (<-chan error)) <-chan error { return i.JoinCCe(c) },
			JoinSC: func(in []chan error) <-chan error {
				if in == nil {
					return i.JoinSCe(nil)
				}
				r := make([]<-chan error, len(in))
				for k, c := range in {
					r[k] = c
				}
				return i.JoinSCe(r)
			},
			JoinV: func(c []chan error) <-chan error { return i.JoinV2e(c[0], c[1]) }},
		Do2: map[string]func(f0, f1 func() (int, error)) (int, int, error){"Do2": a.Do2, "Do2b": b.Do2b},
		Do3: map[string]func(f0, f1, f2 func() (int, error)) (int, int, int, error){"Do3": a.Do3, "Do3b": b.Do3b,
			"Do3m": func(f0, f1, f2 func() (int, error)) (int, int, int, error) { return conc.Mixed3(b.Do3m, f0, f1, f2) }},
		Do4: a.Do4,
	})
}
`

// A conditional probe (C20): argument functions whose second result is a custom error type.  The current
// generator refuses them; if a generator accepts them, the emitted Do must still return a nil error when
// every function succeeded (a typed nil pointer stored in an error variable is NOT nil).
const probeMod = `module concprobe

go 1.24
`

const probePkg = `package probepkg

type NotFound struct{ ID int }

func (e *NotFound) Error() string { return "not found" }

func DoP(f0 func() (int, *NotFound), f1 func() (int, error)) (int, int, error) { return deriveDoP(f0, f1) }
`

const probeMain = `package main

import (
	"concprobe/probepkg"
	"errors"
	"fmt"
	"os"
)

func main() {
	bad := 0
	v0, v1, err := probepkg.DoP(func() (int, *probepkg.NotFound) { return 7, nil }, func() (int, error) { return 8, nil })
	if err != nil {
		fmt.Printf("VIOLATED: both functions succeeded (f0 returned (7, (*NotFound)(nil)), f1 (8, nil)) but Do returned the non-nil error %#v\n", err)
		bad++
	}
	if v0 != 7 || v1 != 8 {
		fmt.Printf("VIOLATED: values (%d, %d), want (7, 8)\n", v0, v1)
		bad++
	}
	nf := &probepkg.NotFound{ID: 3}
	other := errors.New("other")
	_, _, err = probepkg.DoP(func() (int, *probepkg.NotFound) { return 0, nf }, func() (int, error) { return 0, other })
	if err != error(nf) && err != other {
		fmt.Printf("VIOLATED: the error returned (%v) is none of the errors the functions returned\n", err)
		bad++
	}
	if bad > 0 {
		os.Exit(1)
	}
	fmt.Println("probe ok")
}
`

func must(err error) {
	if err != nil {
		fmt.Fprintln(os.Stderr, "genconc:", err)
		os.Exit(2)
	}
}

func write(path, content string) {
	must(os.MkdirAll(filepath.Dir(path), 0o755))
	must(os.WriteFile(path, []byte(content), 0o644))
}

func leanString(s string) string {
	s = strings.ReplaceAll(s, `\`, `\\`)
	s = strings.ReplaceAll(s, `"`, `\"`)
	return `"` + s + `"`
}

func main() {
	goderive := flag.String("goderive", "", "goderive binary built from the current tree")
	work := flag.String("work", "", "work directory (becomes a Go module)")
	harness := flag.String("harness", "", "path of the verifharness module")
	lean := flag.String("lean", "", "path of Generated/ConcFacts.lean to (re)write")
	repoHash := flag.String("repohash", "", "hash of the goderive source tree the binary was built from (recorded in the facts file)")
	flag.Parse()
	if *goderive == "" || *work == "" || *harness == "" {
		flag.Usage()
		os.Exit(2)
	}
	must(os.RemoveAll(*work))
	write(filepath.Join(*work, "go.mod"), fmt.Sprintf(goMod, *harness))
	write(filepath.Join(*work, "concpkg", "conc.go"), pkgA)
	write(filepath.Join(*work, "concpkgb", "conc.go"), pkgB)
	write(filepath.Join(*work, "concpkgi", "conc.go"), pkgI)

	cmd := exec.Command(*goderive, "./concpkg", "./concpkgb", "./concpkgi")
	cmd.Dir = *work
	if out, err := cmd.CombinedOutput(); err != nil {
		fmt.Fprintf(os.Stderr, "genconc: goderive failed on the fixed package: %v\n%s\n", err, out)
		os.Exit(3)
	}

	all := map[string]string{}
	var pkgs []*rewrite.Pkg
	for _, pk := range []string{"concpkg", "concpkgb", "concpkgi"} {
		p, err := rewrite.Load(filepath.Join(*work, pk))
		if err != nil {
			fmt.Fprintf(os.Stderr, "genconc: emitted code does not type-check: %v\n", err)
			os.Exit(3)
		}
		sk, err := p.Skeletons("derived.gen.go")
		if err != nil {
			fmt.Fprintf(os.Stderr, "genconc: skeleton extraction: %v\n", err)
			os.Exit(4)
		}
		for n, s := range sk {
			all[n] = s
		}
		pkgs = append(pkgs, p)
	}
	// the facts are written before the rewriting is attempted: T4 must speak about the code emitted now
	// even when that code cannot be mapped onto the scheduler
	var txt, ln strings.Builder
	ln.WriteString("/-\nGENERATED by harness/cmd/genconc on every run of ./check C19 / C20 (tie T4): the channel-operation\n" +
		"skeletons of the functions the real goderive emits NOW for the fixed package using every concurrent\n" +
		"combinator form.  Do not edit; K/Skeleton.lean compares it with the skeletons the LTSs were written for.\n-/\n" +
		"-- facts-of-repo-tree: " + *repoHash + "\n" +
		"namespace Goderive.Generated\n\ndef skeletons : List (String × String) := [\n")
	names := rewrite.SortedNames(all)
	for i, n := range names {
		txt.WriteString(n + " " + all[n] + "\n")
		ln.WriteString("  (" + leanString(n) + ",\n   " + leanString(all[n]) + ")")
		if i+1 < len(names) {
			ln.WriteString(",")
		}
		ln.WriteString("\n")
	}
	ln.WriteString("]\n\nend Goderive.Generated\n")
	write(filepath.Join(*work, "skeletons.txt"), txt.String())
	if *lean != "" {
		old, _ := os.ReadFile(*lean)
		if string(old) != ln.String() {
			write(*lean, ln.String())
		}
	}
	// conditional probe: custom error result types
	pdir := filepath.Join(*work, "probe")
	write(filepath.Join(pdir, "go.mod"), probeMod)
	write(filepath.Join(pdir, "probepkg", "p.go"), probePkg)
	pc := exec.Command(*goderive, "./probepkg")
	pc.Dir = pdir
	pout, perr := pc.CombinedOutput()
	if perr != nil {
		write(filepath.Join(*work, "probe.txt"), "refused\n"+string(pout))
	} else {
		write(filepath.Join(pdir, "main.go"), probeMain)
		write(filepath.Join(*work, "probe.txt"), "accepted\n")
	}
	write(filepath.Join(*work, "cmd", "vsrun", "main.go"), vsMain)
	write(filepath.Join(*work, "cmd", "racerun", "main.go"), raceMain)
	// last: the rewriting onto vsched; when it fails everything else (facts, real-runtime program, probe) is in place
	for i, pk := range []string{"concpkg", "concpkgb", "concpkgi"} {
		if err := pkgs[i].RewriteTo(filepath.Join(*work, "vs", pk)); err != nil {
			fmt.Fprintf(os.Stderr, "genconc: rewriting onto vsched: %v\n", err)
			os.Exit(5)
		}
	}
	fmt.Printf("genconc: %d emitted functions, skeletons and rewritten packages in %s\n", len(names), *work)
}
