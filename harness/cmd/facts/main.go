// facts is the T4 fact extractor: it reads the CURRENT sources of goderive (main.go, derive/*.go,
// plugin/*/*.go; no _test.go files, no files guarded by the build tag `verif`) with go/parser +
// go/types and writes the facts the C08/C09/C10 (and C12) theorems depend on as Lean data into
// GoderiveModel/Generated/Facts.lean. The theorems are re-checked against that file by `lake build`
// on every run, so a source change that invalidates a fact breaks the build.
//
//	facts -repo /repo -out /verif/lean/GoderiveModel/Generated/Facts.lean
//
// The output is deterministic (everything sorted) and the file is only rewritten when its content
// changes. Facts (all sites are "file:function:detail", file relative to the repo root):
//
//	mapRangeSites        range statements over a map-typed operand
//	packageVars          package-level variables (file:name:type)
//	mutablePackageVars   package-level variables written/inc-dec'd/address-taken outside their declaration
//	fsCallSites          calls into os, io/ioutil, os/exec, syscall, go/format and the FS-touching part of
//	                     path/filepath (file:function:callee:flags; flags = 2nd argument of os.OpenFile)
//	externalCalls        calls into non-std, non-repo packages (loader, gotool): they read the file system
//	rewriteOpenFlags     the flag expression of the os.OpenFile in newPackage, split on `|`
//	swallowedErrors      err != nil branches that return a nil error / fall through, and dropped error
//	                     results of repo-defined callees (except SetFuncName, listed separately)
//	toleratedErrors      `return nil` under `if os.IsNotExist(err)` inside an err != nil branch
//	droppedSetFuncName   sites that drop the error of (TypesMap).SetFuncName
//	typsIndexUses        typs[k] with constant k in plugin functions, with the len(typs) guards in effect
//	defaultPrefixes      (plugin name, default prefix) from derive.NewPlugin("name", "prefix", …)
//	pluginOrder          the plugins registered in main.go, in order
//	panicSites           explicit panic( calls
//	typeCheckErrors      go/types errors met while extracting (must be empty for the facts to be complete)
package main

import (
	"bytes"
	"flag"
	"fmt"
	"go/ast"
	"go/build/constraint"
	"go/importer"
	"go/parser"
	"go/token"
	"go/types"
	"os"
	"path/filepath"
	"sort"
	"strconv"
	"strings"
)

var (
	repo = flag.String("repo", "/repo", "goderive source tree")
	out  = flag.String("out", "", "Lean file to write")
)

func die(format string, a ...interface{}) {
	fmt.Fprintf(os.Stderr, "facts: "+format+"\n", a...)
	os.Exit(2)
}

type pkgT struct {
	dir   string // relative to repo, "" for root
	path  string // import path
	files []*ast.File
	names []string // file names relative to repo, parallel to files
	tpkg  *types.Package
	info  *types.Info
	busy  bool
}

// funcDecls: every function of the scanned packages, for the small inter-procedural question below
var funcDecls = map[*types.Func]*ast.FuncDecl{}

// lengthPreserving: does fn(xs) always return a slice of len(xs)? Recognised shape: the body starts with
// `if len(p) != K { return p }` and every other return gives back p itself or a composite literal of K elements
// (derive.TypedPair); or every return gives back p itself.
func lengthPreserving(fn *types.Func) bool {
	fd := funcDecls[fn]
	if fd == nil || fd.Body == nil || fd.Type.Params == nil || len(fd.Type.Params.List) != 1 || len(fd.Type.Params.List[0].Names) != 1 {
		return false
	}
	p := fd.Type.Params.List[0].Names[0].Name
	k := -1
	if len(fd.Body.List) > 0 {
		if is, ok := fd.Body.List[0].(*ast.IfStmt); ok && is.Init == nil && is.Else == nil {
			if g, exact := condGuard(is.Cond, p); exact && g.op == "ne" && len(is.Body.List) == 1 {
				if r, ok := is.Body.List[0].(*ast.ReturnStmt); ok && len(r.Results) == 1 && exprStr(r.Results[0]) == p {
					k = g.n
				}
			}
		}
	}
	ok := true
	assigned := false
	ast.Inspect(fd.Body, func(n ast.Node) bool {
		switch x := n.(type) {
		case *ast.FuncLit:
			return false
		case *ast.AssignStmt:
			for _, l := range x.Lhs {
				if id, isId := l.(*ast.Ident); isId && id.Name == p {
					assigned = true
				}
			}
		case *ast.ReturnStmt:
			if len(x.Results) != 1 {
				ok = false
				return true
			}
			if exprStr(x.Results[0]) == p {
				return true
			}
			if cl, isLit := x.Results[0].(*ast.CompositeLit); isLit && k >= 0 && len(cl.Elts) == k {
				for _, e := range cl.Elts {
					if _, kv := e.(*ast.KeyValueExpr); kv {
						ok = false
					}
				}
				return true
			}
			ok = false
		}
		return true
	})
	return ok && !assigned
}

type world struct {
	fset    *token.FileSet
	module  string
	pkgs    map[string]*pkgT // by import path
	order   []string
	src     types.ImporterFrom
	tcErrs  []string
	repoAbs string
}

func (w *world) Import(path string) (*types.Package, error) { return w.ImportFrom(path, w.repoAbs, 0) }

func (w *world) ImportFrom(path, dir string, mode types.ImportMode) (*types.Package, error) {
	if p, ok := w.pkgs[path]; ok {
		if err := w.check(p); err != nil {
			return nil, err
		}
		return p.tpkg, nil
	}
	if path == w.module || strings.HasPrefix(path, w.module+"/") {
		return nil, fmt.Errorf("repo package %s not among the scanned directories", path)
	}
	return w.src.ImportFrom(path, w.repoAbs, 0)
}

func (w *world) check(p *pkgT) error {
	if p.tpkg != nil {
		return nil
	}
	if p.busy {
		return fmt.Errorf("import cycle through %s", p.path)
	}
	p.busy = true
	defer func() { p.busy = false }()
	p.info = &types.Info{
		Types:      map[ast.Expr]types.TypeAndValue{},
		Defs:       map[*ast.Ident]types.Object{},
		Uses:       map[*ast.Ident]types.Object{},
		Selections: map[*ast.SelectorExpr]*types.Selection{},
	}
	conf := types.Config{Importer: w, Error: func(err error) {
		w.tcErrs = append(w.tcErrs, w.relErr(err.Error()))
	}}
	tp, _ := conf.Check(p.path, w.fset, p.files, p.info)
	p.tpkg = tp
	return nil
}

func (w *world) relErr(s string) string {
	return strings.ReplaceAll(s, w.repoAbs+"/", "")
}

func hasVerifTag(f *ast.File) bool {
	for _, cg := range f.Comments {
		if cg.Pos() > f.Package {
			break
		}
		for _, c := range cg.List {
			if constraint.IsGoBuild(c.Text) || constraint.IsPlusBuild(c.Text) {
				e, err := constraint.Parse(c.Text)
				if err != nil {
					continue
				}
				found := false
				e.Eval(func(tag string) bool {
					if tag == "verif" {
						found = true
					}
					return false
				})
				if found {
					return true
				}
			}
		}
	}
	return false
}

func (w *world) loadDir(rel string, only func(string) bool) {
	abs := filepath.Join(w.repoAbs, rel)
	ents, err := os.ReadDir(abs)
	if err != nil {
		die("%v", err)
	}
	p := &pkgT{dir: rel, path: w.module}
	if rel != "" {
		p.path = w.module + "/" + filepath.ToSlash(rel)
	}
	for _, e := range ents {
		n := e.Name()
		if e.IsDir() || !strings.HasSuffix(n, ".go") || strings.HasSuffix(n, "_test.go") {
			continue
		}
		if only != nil && !only(n) {
			continue
		}
		f, err := parser.ParseFile(w.fset, filepath.Join(abs, n), nil, parser.ParseComments)
		if err != nil {
			w.tcErrs = append(w.tcErrs, w.relErr(err.Error()))
			if f == nil {
				continue
			}
		}
		if hasVerifTag(f) {
			continue
		}
		p.files = append(p.files, f)
		p.names = append(p.names, filepath.ToSlash(filepath.Join(rel, n)))
	}
	if len(p.files) == 0 {
		return
	}
	w.pkgs[p.path] = p
	w.order = append(w.order, p.path)
}

// ---------------------------------------------------------------- helpers

func funcName(fd *ast.FuncDecl) string {
	if fd.Recv == nil || len(fd.Recv.List) == 0 {
		return fd.Name.Name
	}
	t := fd.Recv.List[0].Type
	star := ""
	if s, ok := t.(*ast.StarExpr); ok {
		star = "*"
		t = s.X
	}
	if ix, ok := t.(*ast.IndexExpr); ok {
		t = ix.X
	}
	name := "?"
	if id, ok := t.(*ast.Ident); ok {
		name = id.Name
	}
	if star != "" {
		return "(*" + name + ")." + fd.Name.Name
	}
	return name + "." + fd.Name.Name
}

func exprStr(e ast.Expr) string { return types.ExprString(e) }

func rootIdent(e ast.Expr) *ast.Ident {
	for {
		switch x := e.(type) {
		case *ast.Ident:
			return x
		case *ast.SelectorExpr:
			// pkg.Var: the selector itself names the variable
			return x.Sel
		case *ast.IndexExpr:
			e = x.X
		case *ast.StarExpr:
			e = x.X
		case *ast.ParenExpr:
			e = x.X
		default:
			return nil
		}
	}
}

// rootVar returns the package-level variable a store through e would modify, if any.
func rootVar(info *types.Info, e ast.Expr) *types.Var {
	for {
		switch x := e.(type) {
		case *ast.Ident:
			return pkgVar(info.Uses[x])
		case *ast.SelectorExpr:
			if v := pkgVar(info.Uses[x.Sel]); v != nil { // pkg.Var
				return v
			}
			e = x.X // field store: x.f = …
		case *ast.IndexExpr:
			e = x.X
		case *ast.StarExpr:
			e = x.X
		case *ast.ParenExpr:
			e = x.X
		default:
			return nil
		}
	}
}

func pkgVar(o types.Object) *types.Var {
	v, ok := o.(*types.Var)
	if !ok || v.Pkg() == nil || v.IsField() {
		return nil
	}
	if v.Parent() != v.Pkg().Scope() {
		return nil
	}
	return v
}

func isErrorType(t types.Type) bool {
	if t == nil {
		return false
	}
	n, ok := t.(*types.Named)
	return ok && n.Obj().Pkg() == nil && n.Obj().Name() == "error"
}

func lastResultIsError(sig *types.Signature) bool {
	if sig == nil || sig.Results().Len() == 0 {
		return false
	}
	return isErrorType(sig.Results().At(sig.Results().Len() - 1).Type())
}

func isNilIdent(e ast.Expr) bool {
	id, ok := e.(*ast.Ident)
	return ok && id.Name == "nil"
}

// ---------------------------------------------------------------- guards for typs[k]

// A guard is a formula over L = len(typs).
type guard struct {
	op   string // tt ff eq ne lt le gt ge and or not
	n    int
	a, b *guard
}

func gAtom(op string, n int) *guard { return &guard{op: op, n: n} }
func flat(g *guard, op string, acc map[string]*guard) {
	if g.op == op {
		flat(g.a, op, acc)
		flat(g.b, op, acc)
		return
	}
	acc[g.lean()] = g
}

func rebuild(op string, acc map[string]*guard) *guard {
	keys := make([]string, 0, len(acc))
	for k := range acc {
		keys = append(keys, k)
	}
	sort.Strings(keys)
	var r *guard
	for i := len(keys) - 1; i >= 0; i-- {
		if r == nil {
			r = acc[keys[i]]
		} else {
			r = &guard{op: op, a: acc[keys[i]], b: r}
		}
	}
	return r
}

func gAnd(a, b *guard) *guard {
	if a.op == "tt" {
		return b
	}
	if b.op == "tt" {
		return a
	}
	if a.op == "ff" || b.op == "ff" {
		return gAtom("ff", 0)
	}
	acc := map[string]*guard{}
	flat(a, "and", acc)
	flat(b, "and", acc)
	return rebuild("and", acc)
}
func gOr(a, b *guard) *guard {
	if a.op == "tt" || b.op == "tt" {
		return gAtom("tt", 0)
	}
	if a.op == "ff" {
		return b
	}
	if b.op == "ff" {
		return a
	}
	acc := map[string]*guard{}
	flat(a, "or", acc)
	flat(b, "or", acc)
	return rebuild("or", acc)
}
func gNot(a *guard) *guard { return &guard{op: "not", a: a} }

func (g *guard) lean() string {
	switch g.op {
	case "tt", "ff":
		return "." + g.op
	case "and", "or":
		return fmt.Sprintf("(.%s %s %s)", g.op, g.a.lean(), g.b.lean())
	case "not":
		return fmt.Sprintf("(.not %s)", g.a.lean())
	}
	if strings.HasPrefix(g.op, "ENTRY:") {
		return "(" + g.op + ")"
	}
	return fmt.Sprintf("(.%s %d)", g.op, g.n)
}

// known reports whether the formula contains no unknown part in a position where treating it as
// `tt` would be unsound; unknown conditions are mapped to tt only in positive (conjunctive)
// positions and make a negated early-exit condition vanish (see condGuard).

// condGuard translates a Go condition into (formula, exact). exact=false means the formula is only
// an over-approximation usable positively (cond ⇒ formula); its negation carries no information.
func condGuard(e ast.Expr, param string) (*guard, bool) {
	switch x := e.(type) {
	case *ast.ParenExpr:
		return condGuard(x.X, param)
	case *ast.UnaryExpr:
		if x.Op == token.NOT {
			g, ex := condGuard(x.X, param)
			if ex {
				return gNot(g), true
			}
			return gAtom("tt", 0), false
		}
	case *ast.BinaryExpr:
		switch x.Op {
		case token.LAND:
			a, ea := condGuard(x.X, param)
			b, eb := condGuard(x.Y, param)
			return gAnd(a, b), ea && eb
		case token.LOR:
			a, ea := condGuard(x.X, param)
			b, eb := condGuard(x.Y, param)
			if ea && eb {
				return gOr(a, b), true
			}
			return gAtom("tt", 0), false
		case token.EQL, token.NEQ, token.LSS, token.LEQ, token.GTR, token.GEQ:
			op := map[token.Token]string{token.EQL: "eq", token.NEQ: "ne", token.LSS: "lt", token.LEQ: "le", token.GTR: "gt", token.GEQ: "ge"}[x.Op]
			if isLenOf(x.X, param) {
				if n, ok := intLit(x.Y); ok {
					return gAtom(op, n), true
				}
			}
			if isLenOf(x.Y, param) {
				if n, ok := intLit(x.X); ok {
					flip := map[string]string{"eq": "eq", "ne": "ne", "lt": "gt", "le": "ge", "gt": "lt", "ge": "le"}[op]
					return gAtom(flip, n), true
				}
			}
		}
	}
	return gAtom("tt", 0), false
}

func isLenOf(e ast.Expr, param string) bool {
	c, ok := e.(*ast.CallExpr)
	if !ok || len(c.Args) != 1 {
		return false
	}
	f, ok := c.Fun.(*ast.Ident)
	if !ok || f.Name != "len" {
		return false
	}
	a, ok := c.Args[0].(*ast.Ident)
	return ok && a.Name == param
}

func intLit(e ast.Expr) (int, bool) {
	b, ok := e.(*ast.BasicLit)
	if !ok || b.Kind != token.INT {
		return 0, false
	}
	n, err := strconv.Atoi(b.Value)
	return n, err == nil
}

// terminates: does the statement list always leave the function (return / panic / log.Fatal*)?
func terminates(list []ast.Stmt) bool {
	if len(list) == 0 {
		return false
	}
	switch s := list[len(list)-1].(type) {
	case *ast.ReturnStmt:
		return true
	case *ast.ExprStmt:
		if c, ok := s.X.(*ast.CallExpr); ok {
			if id, ok := c.Fun.(*ast.Ident); ok && id.Name == "panic" {
				return true
			}
			if sel, ok := c.Fun.(*ast.SelectorExpr); ok && strings.HasPrefix(sel.Sel.Name, "Fatal") {
				return true
			}
		}
	case *ast.BlockStmt:
		return terminates(s.List)
	case *ast.IfStmt:
		if s.Else == nil {
			return false
		}
		var el []ast.Stmt
		switch e := s.Else.(type) {
		case *ast.BlockStmt:
			el = e.List
		case *ast.IfStmt:
			el = []ast.Stmt{e}
		}
		return terminates(s.Body.List) && terminates(el)
	}
	return false
}

type indexUse struct {
	site    string
	index   int
	guard   *guard
	noEntry bool // recorded after the parameter was reassigned: the function's entry condition does not apply
}

type callSite struct { // a call that passes the caller's typs on to a helper
	callee *types.Func
	argPos int
	guard  *guard
	caller *types.Func
}

type regSite struct { // SetFuncName/GetFuncName registration into a plugin's table
	plugin string // plugin package name the table belongs to
	arity  *guard // formula over the registered length
}

// typsWalker walks one function body tracking the len(param) guards in effect.
type typsWalker struct {
	info    *types.Info
	param   string
	site    string
	self    *types.Func
	uses    *[]indexUse
	calls   *[]callSite
	onCall  func(c *ast.CallExpr, g *guard)
	written bool // param reassigned inside a nested block: guards unusable
	depth   int
	reset   bool // param reassigned in the function's own statement list
}

func (tw *typsWalker) stmts(list []ast.Stmt, g *guard) *guard {
	tw.depth++
	for _, s := range list {
		g = tw.stmt(s, g)
	}
	tw.depth--
	return g
}

// stmt visits s under guard g and returns the guard in effect after s.
func (tw *typsWalker) stmt(s ast.Stmt, g *guard) *guard {
	switch x := s.(type) {
	case *ast.BlockStmt:
		return tw.stmts(x.List, g)
	case *ast.IfStmt:
		if x.Init != nil {
			g = tw.stmt(x.Init, g)
		}
		tw.expr(x.Cond, g)
		c, exact := condGuard(x.Cond, tw.param)
		tw.stmts(x.Body.List, gAnd(g, c))
		after := g
		neg := gAtom("tt", 0)
		if exact {
			neg = gNot(c)
		}
		if x.Else != nil {
			tw.stmt(x.Else, gAnd(g, neg))
		}
		if terminates(x.Body.List) && exact {
			after = gAnd(g, neg)
		}
		return after
	case *ast.SwitchStmt:
		if x.Init != nil {
			g = tw.stmt(x.Init, g)
		}
		if x.Tag != nil {
			tw.expr(x.Tag, g)
		}
		for _, cc := range x.Body.List {
			cl := cc.(*ast.CaseClause)
			cg := g
			if x.Tag != nil && isLenOf(x.Tag, tw.param) && len(cl.List) > 0 {
				alt := gAtom("ff", 0)
				for _, e := range cl.List {
					if n, ok := intLit(e); ok {
						alt = gOr(alt, gAtom("eq", n))
					} else {
						alt = gAtom("tt", 0)
					}
				}
				cg = gAnd(g, alt)
			}
			for _, e := range cl.List {
				tw.expr(e, g)
			}
			tw.stmts(cl.Body, cg)
		}
		return g
	case *ast.TypeSwitchStmt:
		if x.Init != nil {
			g = tw.stmt(x.Init, g)
		}
		tw.stmt(x.Assign, g)
		for _, cc := range x.Body.List {
			tw.stmts(cc.(*ast.CaseClause).Body, g)
		}
		return g
	case *ast.ForStmt:
		if x.Init != nil {
			g = tw.stmt(x.Init, g)
		}
		if x.Cond != nil {
			tw.expr(x.Cond, g)
		}
		if x.Post != nil {
			tw.stmt(x.Post, g)
		}
		tw.stmts(x.Body.List, g)
		return g
	case *ast.RangeStmt:
		tw.expr(x.X, g)
		tw.stmts(x.Body.List, g)
		return g
	case *ast.AssignStmt:
		reassigned := false
		for _, l := range x.Lhs {
			if id, ok := l.(*ast.Ident); ok && id.Name == tw.param && x.Tok == token.ASSIGN {
				reassigned = true
			}
			tw.expr(l, g)
		}
		for _, r := range x.Rhs {
			tw.expr(r, g)
		}
		if reassigned && len(x.Lhs) == 1 && len(x.Rhs) == 1 {
			// `typs = F(typs)` with a length-preserving F of the repo keeps what is known about len(typs)
			if c, ok := x.Rhs[0].(*ast.CallExpr); ok && len(c.Args) == 1 && exprStr(c.Args[0]) == tw.param {
				if fn := calleeFunc(tw.info, c); fn != nil && lengthPreserving(fn) {
					reassigned = false
				}
			}
		}
		if reassigned {
			// `typs = f(typs)`: what was known about len(typs) no longer holds. In the function's own statement list
			// the knowledge is simply dropped from here on (later checks count again); inside a nested block the
			// whole function is treated as unguarded.
			if tw.depth == 1 {
				tw.reset = true
				return gAtom("tt", 0)
			}
			tw.written = true
		}
		return g
	case *ast.ExprStmt:
		tw.expr(x.X, g)
	case *ast.ReturnStmt:
		for _, r := range x.Results {
			tw.expr(r, g)
		}
	case *ast.DeclStmt:
		ast.Inspect(x, func(n ast.Node) bool {
			if e, ok := n.(ast.Expr); ok {
				tw.expr(e, g)
				return false
			}
			return true
		})
	case *ast.DeferStmt:
		tw.expr(x.Call, g)
	case *ast.GoStmt:
		tw.expr(x.Call, g)
	case *ast.IncDecStmt:
		tw.expr(x.X, g)
	case *ast.SendStmt:
		tw.expr(x.Chan, g)
		tw.expr(x.Value, g)
	case *ast.LabeledStmt:
		return tw.stmt(x.Stmt, g)
	case *ast.SelectStmt:
		for _, cc := range x.Body.List {
			tw.stmts(cc.(*ast.CommClause).Body, g)
		}
	}
	return g
}

func (tw *typsWalker) expr(e ast.Expr, g *guard) {
	ast.Inspect(e, func(n ast.Node) bool {
		switch x := n.(type) {
		case *ast.FuncLit:
			tw.stmts(x.Body.List, g)
			return false
		case *ast.IndexExpr:
			if id, ok := x.X.(*ast.Ident); ok && id.Name == tw.param {
				if k, ok := intLit(x.Index); ok {
					*tw.uses = append(*tw.uses, indexUse{tw.site, k, g, tw.reset})
				}
			}
		case *ast.SliceExpr:
			if id, ok := x.X.(*ast.Ident); ok && id.Name == tw.param {
				for _, b := range []ast.Expr{x.Low, x.High} {
					if b == nil {
						continue
					}
					if k, ok := intLit(b); ok && k > 0 {
						// typs[k:] / typs[:k] needs len >= k, i.e. index k-1 valid
						*tw.uses = append(*tw.uses, indexUse{tw.site, k - 1, g, tw.reset})
					}
				}
			}
		case *ast.CallExpr:
			if tw.onCall != nil {
				tw.onCall(x, g)
			}
		}
		return true
	})
}

// ---------------------------------------------------------------- main extraction

type facts struct {
	mapRange, pkgVars, mutVars, fsCalls, extCalls, openFlags []string
	swallowed, tolerated, droppedSet, panics, order        []string
	prefixes                                                 [][2]string
	uses                                                     []indexUse
	entry                                                    map[string]*guard
	scanned                                                  []string
	fsRecs                                                   [][4]string
}

var pureOS = map[string]bool{"IsNotExist": true, "IsExist": true, "IsPermission": true, "IsTimeout": true,
	"Getenv": true, "LookupEnv": true, "Environ": true, "Exit": true, "Expand": true, "ExpandEnv": true, "Getpid": true,
	"Getppid": true, "Getuid": true, "Geteuid": true, "Getgid": true, "Getegid": true, "IsPathSeparator": true,
	"NewSyscallError": true, "Getpagesize": true, "Hostname": true}

var fsFilepath = map[string]bool{"Abs": true, "Walk": true, "WalkDir": true, "Glob": true, "EvalSymlinks": true}

var fsPkgs = map[string]bool{"os": true, "io/ioutil": true, "os/exec": true, "syscall": true, "go/format": true}

func calleeFunc(info *types.Info, c *ast.CallExpr) *types.Func {
	var id *ast.Ident
	switch f := c.Fun.(type) {
	case *ast.Ident:
		id = f
	case *ast.SelectorExpr:
		id = f.Sel
	case *ast.ParenExpr:
		if s, ok := f.X.(*ast.SelectorExpr); ok {
			id = s.Sel
		}
	}
	if id == nil {
		return nil
	}
	fn, _ := info.Uses[id].(*types.Func)
	return fn
}

func calleeName(fn *types.Func) string {
	sig := fn.Type().(*types.Signature)
	if sig.Recv() != nil {
		return fn.FullName() // (*os.File).Close
	}
	return fn.Pkg().Name() + "." + fn.Name()
}

func isStd(path string) bool {
	first := path
	if i := strings.Index(path, "/"); i >= 0 {
		first = path[:i]
	}
	return !strings.Contains(first, ".")
}

func main() {
	flag.Parse()
	abs, err := filepath.Abs(*repo)
	if err != nil {
		die("%v", err)
	}
	if *out != "" { // the working directory changes below: pin a relative -out first
		if o, err := filepath.Abs(*out); err == nil {
			*out = o
		}
	}
	if err := os.Chdir(abs); err != nil { // go/build locates the module (and ./vendor) from the cwd
		die("%v", err)
	}
	os.Setenv("GOFLAGS", "")
	os.Setenv("GOPROXY", "off")
	os.Unsetenv("GOSUMDB")
	mod, err := os.ReadFile(filepath.Join(abs, "go.mod"))
	if err != nil {
		die("%v", err)
	}
	w := &world{fset: token.NewFileSet(), pkgs: map[string]*pkgT{}, repoAbs: abs}
	for _, l := range strings.Split(string(mod), "\n") {
		if strings.HasPrefix(l, "module ") {
			w.module = strings.TrimSpace(strings.TrimPrefix(l, "module "))
		}
	}
	if w.module == "" {
		die("no module line in go.mod")
	}
	w.src = importer.ForCompiler(w.fset, "source", nil).(types.ImporterFrom)
	w.loadDir("", nil)
	w.loadDir("derive", nil)
	pl, err := os.ReadDir(filepath.Join(abs, "plugin"))
	if err != nil {
		die("%v", err)
	}
	for _, e := range pl {
		if e.IsDir() {
			w.loadDir(filepath.Join("plugin", e.Name()), nil)
		}
	}
	sort.Strings(w.order)
	for _, p := range w.order {
		w.check(w.pkgs[p])
	}
	for _, pp := range w.order {
		for _, f := range w.pkgs[pp].files {
			for _, d := range f.Decls {
				if fd, ok := d.(*ast.FuncDecl); ok {
					if o, ok := w.pkgs[pp].info.Defs[fd.Name].(*types.Func); ok {
						funcDecls[o] = fd
					}
				}
			}
		}
	}

	fx := &facts{entry: map[string]*guard{}}
	var allCalls []callSite
	funcSite := map[*types.Func]string{}
	funcUses := map[*types.Func][]indexUse{}
	funcParamPos := map[*types.Func]int{}
	var regs []regSite
	depField := map[string]map[string]string{} // plugin pkg path -> field name -> plugin name

	// pass 0: dependency fields (`equal: deps["equal"]` in New)
	for _, pp := range w.order {
		p := w.pkgs[pp]
		depField[pp] = map[string]string{}
		for _, f := range p.files {
			ast.Inspect(f, func(n ast.Node) bool {
				kv, ok := n.(*ast.KeyValueExpr)
				if !ok {
					return true
				}
				k, ok := kv.Key.(*ast.Ident)
				if !ok {
					return true
				}
				ix, ok := kv.Value.(*ast.IndexExpr)
				if !ok {
					return true
				}
				if id, ok := ix.X.(*ast.Ident); ok && id.Name == "deps" {
					if lit, ok := ix.Index.(*ast.BasicLit); ok && lit.Kind == token.STRING {
						s, _ := strconv.Unquote(lit.Value)
						depField[pp][k.Name] = s
					}
				}
				return true
			})
		}
	}

	for _, pp := range w.order {
		p := w.pkgs[pp]
		info := p.info
		isPlugin := strings.HasPrefix(p.dir, "plugin")
		pluginName := filepath.Base(p.dir)
		for fi, f := range p.files {
			fname := p.names[fi]
			fx.scanned = append(fx.scanned, fname)
			// package-level vars
			for _, d := range f.Decls {
				gd, ok := d.(*ast.GenDecl)
				if !ok || gd.Tok != token.VAR {
					continue
				}
				for _, sp := range gd.Specs {
					vs := sp.(*ast.ValueSpec)
					for _, n := range vs.Names {
						if n.Name == "_" {
							continue
						}
						t := "?"
						if o := info.Defs[n]; o != nil {
							t = types.TypeString(o.Type(), func(p *types.Package) string { return p.Name() })
						}
						fx.pkgVars = append(fx.pkgVars, fname+":"+n.Name+":"+t)
					}
				}
			}
			// per function
			visitBody := func(fn string, fd *ast.FuncDecl, body ast.Node) {
				site := fname + ":" + fn
				var sigStack []*types.Signature
				if fd != nil {
					if o, ok := info.Defs[fd.Name].(*types.Func); ok {
						sigStack = append(sigStack, o.Type().(*types.Signature))
					} else {
						sigStack = append(sigStack, nil)
					}
				}
				var walk func(n ast.Node, errBranch int, tolerated bool)
				// errBranch > 0: inside the body of an `if err != nil`
				walk = func(n ast.Node, errBranch int, tol bool) {
					if n == nil {
						return
					}
					switch x := n.(type) {
					case *ast.FuncLit:
						var sg *types.Signature
						if t, ok := info.TypeOf(x).(*types.Signature); ok {
							sg = t
						}
						sigStack = append(sigStack, sg)
						walk(x.Body, 0, false)
						sigStack = sigStack[:len(sigStack)-1]
						return
					case *ast.RangeStmt:
						if t := info.TypeOf(x.X); t != nil {
							if _, ok := t.Underlying().(*types.Map); ok {
								fx.mapRange = append(fx.mapRange, site+":"+exprStr(x.X))
							}
						} else {
							fx.mapRange = append(fx.mapRange, site+":"+exprStr(x.X)+":UNTYPED")
						}
						for _, kv := range []ast.Expr{x.Key, x.Value} {
							if kv != nil && x.Tok == token.ASSIGN {
								if v := rootVar(info, kv); v != nil {
									fx.mutVars = append(fx.mutVars, varSite(w, v)+":"+site)
								}
							}
						}
					case *ast.AssignStmt:
						if x.Tok != token.DEFINE {
							for _, l := range x.Lhs {
								if v := rootVar(info, l); v != nil {
									fx.mutVars = append(fx.mutVars, varSite(w, v)+":"+site)
								}
							}
						}
						// dropped error: `_ = f()` / `x, _ := f()`
						if len(x.Rhs) == 1 {
							if c, ok := x.Rhs[0].(*ast.CallExpr); ok {
								if fn := calleeFunc(info, c); fn != nil && w.repoFunc(fn) && lastResultIsError(fn.Type().(*types.Signature)) {
									if id, ok := x.Lhs[len(x.Lhs)-1].(*ast.Ident); ok && id.Name == "_" {
										fx.dropped(site, fn, c)
									}
								}
							}
						}
					case *ast.IncDecStmt:
						if v := rootVar(info, x.X); v != nil {
							fx.mutVars = append(fx.mutVars, varSite(w, v)+":"+site)
						}
					case *ast.UnaryExpr:
						if x.Op == token.AND {
							if v := rootVar(info, x.X); v != nil {
								fx.mutVars = append(fx.mutVars, varSite(w, v)+":"+site+":&")
							}
						}
					case *ast.ExprStmt:
						if c, ok := x.X.(*ast.CallExpr); ok {
							if fn := calleeFunc(info, c); fn != nil && w.repoFunc(fn) && lastResultIsError(fn.Type().(*types.Signature)) {
								fx.dropped(site, fn, c)
							}
						}
					case *ast.DeferStmt:
						if fn := calleeFunc(info, x.Call); fn != nil && w.repoFunc(fn) && lastResultIsError(fn.Type().(*types.Signature)) {
							fx.dropped(site, fn, x.Call)
						}
					case *ast.GoStmt:
						if fn := calleeFunc(info, x.Call); fn != nil && w.repoFunc(fn) && lastResultIsError(fn.Type().(*types.Signature)) {
							fx.dropped(site, fn, x.Call)
						}
					case *ast.CallExpr:
						if id, ok := x.Fun.(*ast.Ident); ok && id.Name == "panic" {
							if _, isB := info.Uses[id].(*types.Builtin); isB {
								msg := ""
								if len(x.Args) == 1 {
									ast.Inspect(x.Args[0], func(m ast.Node) bool {
										if l, ok := m.(*ast.BasicLit); ok && l.Kind == token.STRING && msg == "" {
											msg, _ = strconv.Unquote(l.Value)
										}
										return true
									})
								}
								if len(msg) > 40 {
									msg = msg[:40]
								}
								fx.panics = append(fx.panics, site+":"+msg)
							}
						}
						if fn := calleeFunc(info, x); fn != nil && fn.Pkg() != nil {
							pth := fn.Pkg().Path()
							sig := fn.Type().(*types.Signature)
							switch {
							case fsPkgs[pth] && !(pth == "os" && sig.Recv() == nil && pureOS[fn.Name()]),
								pth == "path/filepath" && fsFilepath[fn.Name()]:
								flags := ""
								if pth == "os" && fn.Name() == "OpenFile" && len(x.Args) >= 2 {
									flags = exprStr(x.Args[1])
									if fn0 := fn; fn0 != nil && strings.HasSuffix(site, ":newPackage") {
										for _, fl := range strings.Split(flags, "|") {
											fx.openFlags = append(fx.openFlags, strings.TrimPrefix(strings.TrimSpace(fl), "os."))
										}
									}
								}
								fx.fsCalls = append(fx.fsCalls, site+":"+calleeName(fn)+":"+flags)
								fx.fsRecs = append(fx.fsRecs, [4]string{fname, strings.SplitN(site, ":", 2)[1], calleeName(fn), flags})
							case !isStd(pth) && !w.repoFunc(fn):
								fx.extCalls = append(fx.extCalls, site+":"+calleeName(fn))
							}
						}
						// derive.NewPlugin("name", "prefix", New)
						if fn := calleeFunc(info, x); fn != nil && fn.Name() == "NewPlugin" && fn.Pkg() != nil &&
							fn.Pkg().Path() == w.module+"/derive" && len(x.Args) >= 2 {
							a, ok1 := x.Args[0].(*ast.BasicLit)
							b, ok2 := x.Args[1].(*ast.BasicLit)
							if ok1 && ok2 {
								s1, _ := strconv.Unquote(a.Value)
								s2, _ := strconv.Unquote(b.Value)
								fx.prefixes = append(fx.prefixes, [2]string{s1, s2})
							} else {
								fx.prefixes = append(fx.prefixes, [2]string{"NONLITERAL:" + site, exprStr(x.Args[1])})
							}
						}
					case *ast.IfStmt:
						walk(x.Init, errBranch, tol)
						walk(x.Cond, errBranch, tol)
						isErrNe := false
						if b, ok := x.Cond.(*ast.BinaryExpr); ok && b.Op == token.NEQ && isNilIdent(b.Y) {
							if isErrorType(info.TypeOf(b.X)) {
								isErrNe = true
							}
						}
						isTol := false
						if c, ok := x.Cond.(*ast.CallExpr); ok {
							if fn := calleeFunc(info, c); fn != nil && fn.Pkg() != nil && fn.Pkg().Path() == "os" && fn.Name() == "IsNotExist" {
								isTol = true
							}
						}
						cur := sigStack[len(sigStack)-1]
						if isErrNe && lastResultIsError(cur) {
							if !terminates(x.Body.List) && !endsLoopJump(x.Body.List) {
								fx.swallowed = append(fx.swallowed, site+":"+exprStr(x.Cond)+":falls-through")
							}
							walk(x.Body, errBranch+1, false)
						} else {
							walk(x.Body, errBranch, tol || (isTol && errBranch > 0))
						}
						walk(x.Else, errBranch, tol)
						return
					case *ast.ReturnStmt:
						cur := sigStack[len(sigStack)-1]
						if errBranch > 0 && lastResultIsError(cur) && len(x.Results) > 0 && isNilIdent(x.Results[len(x.Results)-1]) {
							if tol {
								fx.tolerated = append(fx.tolerated, site+":os.IsNotExist(err)")
							} else {
								fx.swallowed = append(fx.swallowed, site+":err != nil:return nil")
							}
						}
					}
					// generic descent
					children(n, func(c ast.Node) { walk(c, errBranch, tol) })
				}
				if fd == nil {
					sigStack = append(sigStack, nil)
				}
				walk(body, 0, false)
			}
			for _, d := range f.Decls {
				switch x := d.(type) {
				case *ast.FuncDecl:
					if x.Body != nil {
						visitBody(funcName(x), x, x.Body)
					}
				case *ast.GenDecl:
					if x.Tok == token.VAR {
						for _, sp := range x.Specs {
							for _, v := range sp.(*ast.ValueSpec).Values {
								visitBody("<init>", nil, v)
							}
						}
					}
				}
			}
			// plugin order in main.go
			if p.dir == "" {
				ast.Inspect(f, func(n ast.Node) bool {
					cl, ok := n.(*ast.CompositeLit)
					if !ok {
						return true
					}
					at, ok := cl.Type.(*ast.ArrayType)
					if !ok || exprStr(at.Elt) != "derive.Plugin" {
						return true
					}
					for _, e := range cl.Elts {
						if c, ok := e.(*ast.CallExpr); ok {
							if s, ok := c.Fun.(*ast.SelectorExpr); ok {
								fx.order = append(fx.order, exprStr(s.X))
								continue
							}
						}
						fx.order = append(fx.order, "NONCALL:"+exprStr(e))
					}
					return false
				})
			}
			// typs[k] uses, in plugin packages: every function with a parameter `… []types.Type`
			if isPlugin {
				for _, d := range f.Decls {
					fd, ok := d.(*ast.FuncDecl)
					if !ok || fd.Body == nil {
						continue
					}
					obj, _ := info.Defs[fd.Name].(*types.Func)
					if obj == nil {
						continue
					}
					pos := 0
					for _, fld := range fd.Type.Params.List {
						names := fld.Names
						if len(names) == 0 {
							pos++
							continue
						}
						for _, nm := range names {
							if exprStr(fld.Type) == "[]types.Type" {
								site := fname + ":" + funcName(fd)
								var uses []indexUse
								tw := &typsWalker{info: info, param: nm.Name, site: site, self: obj, uses: &uses}
								tw.onCall = func(c *ast.CallExpr, g *guard) {
									fn := calleeFunc(info, c)
									if fn == nil {
										return
									}
									// registrations
									if fn.Name() == "SetFuncName" || fn.Name() == "GetFuncName" {
										target := pluginName
										if sel, ok := c.Fun.(*ast.SelectorExpr); ok {
											if inner, ok := sel.X.(*ast.SelectorExpr); ok {
												if dn, ok := depField[pp][inner.Sel.Name]; ok {
													target = dn
												}
											}
										}
										args := c.Args
										if fn.Name() == "SetFuncName" && len(args) > 0 {
											args = args[1:]
										}
										var ar *guard
										if c.Ellipsis.IsValid() {
											last := args[len(args)-1]
											if id, ok := last.(*ast.Ident); ok && id.Name == nm.Name && len(args) == 1 {
												ar = gAnd(gAtom("ENTRY:"+obj.FullName(), 0), g)
											} else if id, ok := last.(*ast.Ident); ok && len(args) == 1 && madeLen(fd.Body, id.Name) >= 0 {
												ar = gAtom("eq", madeLen(fd.Body, id.Name))
											} else {
												ar = gAtom("tt", 0)
											}
										} else {
											ar = gAtom("eq", len(args))
										}
										regs = append(regs, regSite{target, ar})
									}
									// passing typs on to a helper of the same package
									if fn.Pkg() == obj.Pkg() {
										for i, a := range c.Args {
											if id, ok := a.(*ast.Ident); ok && id.Name == nm.Name {
												allCalls = append(allCalls, callSite{fn, i, g, obj})
											}
										}
									}
								}
								tw.stmts(fd.Body.List, gAtom("tt", 0))
								if tw.written {
									for i := range uses {
										uses[i].guard = gAtom("tt", 0)
									}
								}
								funcSite[obj] = site
								funcUses[obj] = uses
								funcParamPos[obj] = pos
							}
							pos++
						}
					}
				}
			}
		}
		// registrations made outside functions with a typs parameter (e.g. genFuncFor calling
		// g.equal.GetFuncName(etyp, etyp)): arity from the argument count
		if isPlugin {
			for _, f := range p.files {
				ast.Inspect(f, func(n ast.Node) bool {
					c, ok := n.(*ast.CallExpr)
					if !ok {
						return true
					}
					fn := calleeFunc(info, c)
					if fn == nil || (fn.Name() != "SetFuncName" && fn.Name() != "GetFuncName") {
						return true
					}
					target := pluginName
					if sel, ok := c.Fun.(*ast.SelectorExpr); ok {
						if inner, ok := sel.X.(*ast.SelectorExpr); ok {
							if dn, ok := depField[pp][inner.Sel.Name]; ok {
								target = dn
							}
						}
					}
					args := c.Args
					if fn.Name() == "SetFuncName" && len(args) > 0 {
						args = args[1:]
					}
					if c.Ellipsis.IsValid() {
						return true // handled (or over-approximated) by the typs walker
					}
					regs = append(regs, regSite{target, gAtom("eq", len(args))})
					return true
				})
			}
		}
	}

	// entry guards: Add = tt (the user can write any number of arguments); Generate = the arities
	// registered into this plugin's table; helpers = disjunction over their call sites.
	entryOf := map[*types.Func]*guard{}
	inProgress := map[*types.Func]bool{}
	byFull := map[string]*types.Func{}
	for fn := range funcSite {
		byFull[fn.FullName()] = fn
	}
	// resolve computes the entry condition of fn as a LEAST fixpoint: a recursive dependency (a
	// registration or helper call reachable only through fn itself, e.g. Generate -> genFunc ->
	// GetFuncName(typs...)) re-uses a length fn was already entered with and contributes nothing (ff).
	// cut reports that such a cycle was cut below; such intermediate results are not cached.
	var resolve func(fn *types.Func) (g *guard, cut bool)
	var subst func(g *guard) (*guard, bool)
	subst = func(g *guard) (*guard, bool) {
		if g == nil {
			return gAtom("tt", 0), false
		}
		if strings.HasPrefix(g.op, "ENTRY:") {
			if fn, ok := byFull[strings.TrimPrefix(g.op, "ENTRY:")]; ok {
				return resolve(fn)
			}
			return gAtom("tt", 0), false
		}
		switch g.op {
		case "and", "or":
			x, c1 := subst(g.a)
			y, c2 := subst(g.b)
			if g.op == "and" {
				return gAnd(x, y), c1 || c2
			}
			return gOr(x, y), c1 || c2
		case "not":
			x, c := subst(g.a)
			return gNot(x), c
		}
		return g, false
	}
	resolve = func(fn *types.Func) (*guard, bool) {
		if g, ok := entryOf[fn]; ok {
			return g, false
		}
		if inProgress[fn] {
			return gAtom("ff", 0), true
		}
		inProgress[fn] = true
		defer func() { inProgress[fn] = false }()
		site := funcSite[fn]
		name := fn.Name()
		var g *guard
		cut := false
		switch {
		case name == "Add":
			g = gAtom("tt", 0)
		case name == "Generate":
			plugin := filepath.Base(filepath.Dir(strings.SplitN(site, ":", 2)[0]))
			g = gAtom("ff", 0)
			n := 0
			for _, r := range regs {
				if r.plugin == plugin {
					x, c := subst(r.arity)
					cut = cut || c
					g = gOr(g, x)
					n++
				}
			}
			if n == 0 {
				g = gAtom("tt", 0)
			}
		default:
			g = gAtom("ff", 0)
			n := 0
			for _, c := range allCalls {
				if c.callee == fn && c.argPos == funcParamPos[fn] {
					e, ct := resolve(c.caller)
					cut = cut || ct
					g = gOr(g, gAnd(e, c.guard))
					n++
				}
			}
			if n == 0 || fn.Exported() {
				g = gAtom("tt", 0)
			}
		}
		if !cut {
			entryOf[fn] = g
		}
		return g, cut
	}
	var fns []*types.Func
	for fn := range funcSite {
		fns = append(fns, fn)
	}
	sort.Slice(fns, func(i, j int) bool { return funcSite[fns[i]] < funcSite[fns[j]] })
	for _, fn := range fns {
		e, _ := resolve(fn)
		for _, u := range funcUses[fn] {
			if u.noEntry {
				fx.uses = append(fx.uses, indexUse{u.site, u.index, u.guard, true})
			} else {
				fx.uses = append(fx.uses, indexUse{u.site, u.index, gAnd(e, u.guard), false})
			}
		}
	}

	write(w, fx)
}

func (fx *facts) dropped(site string, fn *types.Func, c *ast.CallExpr) {
	s := site + ":" + exprStr(c.Fun)
	if fn.Name() == "SetFuncName" {
		fx.droppedSet = append(fx.droppedSet, s)
	} else {
		fx.swallowed = append(fx.swallowed, s+":dropped error result")
	}
}

// madeLen: the function body defines name exactly once, as `name := make([]types.Type, N)` with a
// literal N, and never re-assigns or appends to it; returns N, else -1.
func madeLen(body *ast.BlockStmt, name string) int {
	n, defs := -1, 0
	ast.Inspect(body, func(x ast.Node) bool {
		as, ok := x.(*ast.AssignStmt)
		if !ok {
			return true
		}
		for i, l := range as.Lhs {
			id, ok := l.(*ast.Ident)
			if !ok || id.Name != name {
				continue
			}
			defs++
			if as.Tok == token.DEFINE && len(as.Lhs) == len(as.Rhs) {
				if c, ok := as.Rhs[i].(*ast.CallExpr); ok && len(c.Args) == 2 {
					if f, ok := c.Fun.(*ast.Ident); ok && f.Name == "make" && exprStr(c.Args[0]) == "[]types.Type" {
						if k, ok := intLit(c.Args[1]); ok {
							n = k
						}
					}
				}
			}
		}
		return true
	})
	if defs != 1 {
		return -1
	}
	return n
}

func endsLoopJump(list []ast.Stmt) bool {
	if len(list) == 0 {
		return false
	}
	b, ok := list[len(list)-1].(*ast.BranchStmt)
	return ok && (b.Tok == token.CONTINUE || b.Tok == token.BREAK || b.Tok == token.GOTO)
}

func (w *world) repoFunc(fn *types.Func) bool {
	if fn.Pkg() == nil {
		return false
	}
	p := fn.Pkg().Path()
	return p == w.module || strings.HasPrefix(p, w.module+"/")
}

func varSite(w *world, v *types.Var) string {
	pos := w.fset.Position(v.Pos())
	rel, err := filepath.Rel(w.repoAbs, pos.Filename)
	if err != nil {
		rel = pos.Filename
	}
	return filepath.ToSlash(rel) + ":" + v.Name()
}

// children calls f on the direct child nodes of n.
func children(n ast.Node, f func(ast.Node)) {
	first := true
	ast.Inspect(n, func(c ast.Node) bool {
		if first {
			first = false
			return true
		}
		if c != nil {
			f(c)
		}
		return false
	})
}

// ---------------------------------------------------------------- output

func uniqSorted(xs []string) []string {
	sort.Strings(xs)
	var o []string
	for i, x := range xs {
		if i == 0 || x != xs[i-1] {
			o = append(o, x)
		}
	}
	return o
}

func leanStr(s string) string {
	var b strings.Builder
	b.WriteByte('"')
	for _, r := range s {
		switch {
		case r == '"':
			b.WriteString("\\\"")
		case r == '\\':
			b.WriteString("\\\\")
		case r == '\n':
			b.WriteString("\\n")
		case r == '\t':
			b.WriteString("\\t")
		case r < 0x20 || r > 0x7e:
			fmt.Fprintf(&b, "\\u%04x", r&0xffff)
		default:
			b.WriteRune(r)
		}
	}
	b.WriteByte('"')
	return b.String()
}

func leanList(name, doc string, xs []string, keepOrder bool) string {
	if !keepOrder {
		xs = uniqSorted(xs)
	}
	var b strings.Builder
	fmt.Fprintf(&b, "/-- %s -/\ndef %s : List String := [", doc, name)
	for i, x := range xs {
		if i > 0 {
			b.WriteString(",")
		}
		b.WriteString("\n  " + leanStr(x))
	}
	b.WriteString("]\n\n")
	return b.String()
}

const header = `/- GENERATED by /verif/harness/cmd/facts from the current goderive sources (main.go, derive/*.go,
   plugin/*/*.go; no _test.go files, no files guarded by the build tag verif). DO NOT EDIT: every check
   run regenerates this file before lake build; the theorems in Props/C08, C09, C10 (and C12) are
   re-checked against it. Sites are "file:function:detail". -/
namespace Goderive.Generated

/-- A condition on L = len(typs) that is known to hold where an index expression typs[k] is evaluated. -/
inductive Guard where
  | tt | ff
  | eq (n : Nat) | ne (n : Nat) | lt (n : Nat) | le (n : Nat) | gt (n : Nat) | ge (n : Nat)
  | and (a b : Guard) | or (a b : Guard) | not (a : Guard)
  deriving DecidableEq, Repr

/-- one call into the file-system API (same data as fsCallSites, structured) -/
structure FsCall where
  file : String
  function : String
  callee : String
  flags : String
  deriving DecidableEq, Repr

/-- typs[index] in function site; guard = entry condition of the function (Add: none; Generate: the
arities registered into the plugin's table; helpers: what holds at their call sites) and the len(typs)
checks that dominate the expression. -/
structure IndexUse where
  site : String
  index : Nat
  guard : Guard
  deriving DecidableEq, Repr

`

func write(w *world, fx *facts) {
	var b bytes.Buffer
	b.WriteString(header)
	b.WriteString(leanList("filesScanned", "the files the facts were extracted from", fx.scanned, false))
	b.WriteString(leanList("typeCheckErrors", "go/types or parser errors met while extracting; must be empty for the facts to be complete", w.tcErrs, false))
	b.WriteString(leanList("mapRangeSites", "every range statement whose operand has a map type: file:function:operand", fx.mapRange, false))
	b.WriteString(leanList("packageVars", "package-level variables: file:name:type", fx.pkgVars, false))
	b.WriteString(leanList("mutablePackageVars", "package-level variables assigned, inc/dec'd, stored through or address-taken outside their declaration: file:var:file:function", fx.mutVars, false))
	b.WriteString(leanList("fsCallSites", "calls into os, io/ioutil, os/exec, syscall, go/format and FS-touching path/filepath functions: file:function:callee:flags", fx.fsCalls, false))
	sort.Slice(fx.fsRecs, func(i, j int) bool {
		return strings.Join(fx.fsRecs[i][:], ":") < strings.Join(fx.fsRecs[j][:], ":")
	})
	b.WriteString("/-- fsCallSites as records -/\ndef fsCalls : List FsCall := [")
	for i, r := range fx.fsRecs {
		if i > 0 {
			b.WriteString(",")
		}
		b.WriteString("\n  ⟨" + leanStr(r[0]) + ", " + leanStr(r[1]) + ", " + leanStr(r[2]) + ", " + leanStr(r[3]) + "⟩")
	}
	b.WriteString("]\n\n")
	b.WriteString(leanList("externalCalls", "calls into packages outside the standard library and the repo (they only read the file system; contract checked by strace)", fx.extCalls, false))
	b.WriteString(leanList("rewriteOpenFlags", "the flag expression of the os.OpenFile call in newPackage, split on |", fx.openFlags, true))
	b.WriteString(leanList("swallowedErrors", "err != nil branches that return a nil error or fall through, and dropped error results of repo-defined callees", fx.swallowed, false))
	b.WriteString(leanList("toleratedErrors", "return nil under if os.IsNotExist(err) inside an err != nil branch", fx.tolerated, false))
	b.WriteString(leanList("droppedSetFuncName", "sites that drop the error result of SetFuncName", fx.droppedSet, false))
	b.WriteString(leanList("panicSites", "explicit panic calls: file:function:message", fx.panics, false))
	b.WriteString(leanList("pluginOrder", "the plugins registered in main.go, in order", fx.order, true))
	sort.Slice(fx.prefixes, func(i, j int) bool { return fx.prefixes[i][0] < fx.prefixes[j][0] })
	b.WriteString("/-- (plugin name, default prefix) from the derive.NewPlugin(\"name\", \"prefix\", …) call sites -/\ndef defaultPrefixes : List (String × String) := [")
	for i, p := range fx.prefixes {
		if i > 0 {
			b.WriteString(",")
		}
		b.WriteString("\n  (" + leanStr(p[0]) + ", " + leanStr(p[1]) + ")")
	}
	b.WriteString("]\n\n")
	sort.SliceStable(fx.uses, func(i, j int) bool {
		if fx.uses[i].site != fx.uses[j].site {
			return fx.uses[i].site < fx.uses[j].site
		}
		if fx.uses[i].index != fx.uses[j].index {
			return fx.uses[i].index < fx.uses[j].index
		}
		return fx.uses[i].guard.lean() < fx.uses[j].guard.lean()
	})
	b.WriteString("/-- constant-index uses of a `[]types.Type` parameter in plugin functions -/\ndef typsIndexUses : List IndexUse := [")
	n := 0
	prev := ""
	for _, u := range fx.uses {
		line := fmt.Sprintf("\n  ⟨%s, %d, %s⟩", leanStr(u.site), u.index, u.guard.lean())
		if line == prev {
			continue
		}
		prev = line
		if n > 0 {
			b.WriteString(",")
		}
		n++
		b.WriteString(line)
	}
	b.WriteString("]\n\nend Goderive.Generated\n")
	if *out == "" {
		os.Stdout.Write(b.Bytes())
		return
	}
	old, err := os.ReadFile(*out)
	if err == nil && bytes.Equal(old, b.Bytes()) {
		fmt.Println("facts: unchanged")
		return
	}
	if err := os.MkdirAll(filepath.Dir(*out), 0o755); err != nil {
		die("%v", err)
	}
	tmp := *out + ".tmp"
	if err := os.WriteFile(tmp, b.Bytes(), 0o644); err != nil {
		die("%v", err)
	}
	if err := os.Rename(tmp, *out); err != nil {
		die("%v", err)
	}
	fmt.Println("facts: rewritten")
}
