// fsobserve serves the C10 check (user source files are left intact).
//
//	fsobserve -gen -out DIR -seed N [-thorough]
//	    writes the Go module `fsx`: packages for the three outcomes (success, generator error, load
//	    error) and the rename pool (renamings to shorter / equal / longer names through -dedup and
//	    -autoname; files that are / are not gofmt-formatted; trailing comments; several files of which
//	    only some hold a renamed call; bystander files: text files, sub-directories, read-only files).
//	    cases.json lists them.
//
//	fsobserve -expect -orig DIR -new DIR
//	    the rewrite oracle, independent of goderive: for every .go file of the package (not
//	    derived.gen.go) parses the ORIGINAL text with go/parser, lists the call expressions whose
//	    function is a plain identifier (ast.Inspect order), reads the identifier at the same call index
//	    in the rewritten file, and computes the expected bytes in two ways that must agree:
//	      (1) go/format of the original AST with exactly those identifiers' names substituted;
//	      (2) go/format.Source of the original TEXT with the identifiers substituted at their byte offsets.
//	    Prints one JSON object per file: changed, renames [[old,new,line]], ok (new bytes == expected),
//	    parse_new_ok, oracle_agree, leftover (new bytes = expected ++ tail of the old file), shas.
package main

import (
	"bytes"
	"crypto/sha256"
	"encoding/hex"
	"encoding/json"
	"flag"
	"fmt"
	"go/ast"
	"go/format"
	"go/parser"
	"go/scanner"
	"go/token"
	"math/rand"
	"os"
	"path/filepath"
	"sort"
	"strings"
)

var (
	gen      = flag.Bool("gen", false, "write the corpus")
	expect   = flag.Bool("expect", false, "rewrite oracle")
	out      = flag.String("out", "", "output directory (-gen)")
	seed     = flag.Int64("seed", 1, "PRNG seed")
	thorough = flag.Bool("thorough", false, "thorough tier")
	orig     = flag.String("orig", "", "package directory before the run (-expect)")
	newd     = flag.String("new", "", "package directory after the run (-expect)")
	_        = flag.String("harness", "", "ignored")
	_        = flag.String("plugins", "", "ignored")
)

func must(err error) {
	if err != nil {
		fmt.Fprintln(os.Stderr, err)
		os.Exit(2)
	}
}

// ---------------------------------------------------------------- oracle

type fileOut struct {
	File        string      `json:"file"`
	Changed     bool        `json:"changed"`
	ParseOrigOK bool        `json:"parse_orig_ok"`
	ParseNewOK  bool        `json:"parse_new_ok"`
	Calls       int         `json:"calls"`
	Renames     [][3]string `json:"renames"`
	OK          bool        `json:"ok"`
	OracleAgree bool        `json:"oracle_agree"`
	Leftover    bool        `json:"leftover"`
	Formatted   bool        `json:"orig_was_gofmt"`
	ExpSha      string      `json:"expected_sha"`
	GotSha      string      `json:"got_sha"`
	Note        string      `json:"note"`
	FirstDiff   string      `json:"first_diff"`
}

func sha(b []byte) string { h := sha256.Sum256(b); return hex.EncodeToString(h[:8]) }

func callIdents(f *ast.File) []*ast.Ident {
	var ids []*ast.Ident
	ast.Inspect(f, func(n ast.Node) bool {
		if c, ok := n.(*ast.CallExpr); ok {
			fun := c.Fun
			for { // (f)(x): the callee with redundant parentheses is still that identifier
				p, ok := fun.(*ast.ParenExpr)
				if !ok {
					break
				}
				fun = p.X
			}
			if id, ok := fun.(*ast.Ident); ok {
				ids = append(ids, id)
			}
		}
		return true
	})
	return ids
}

// tokens: (kind, literal, line) of every token, comments included; automatic semicolons are dropped (gofmt moves them)
func tokens(src []byte) [][3]string {
	var s scanner.Scanner
	fset := token.NewFileSet()
	f := fset.AddFile("x.go", fset.Base(), len(src))
	s.Init(f, src, func(token.Position, string) {}, scanner.ScanComments)
	var out [][3]string
	for {
		pos, tok, lit := s.Scan()
		if tok == token.EOF {
			break
		}
		if tok == token.SEMICOLON && lit == "\n" {
			continue
		}
		if tok == token.COMMENT {
			lit = strings.TrimRight(lit, " \t\r")
		}
		out = append(out, [3]string{tok.String(), lit, fmt.Sprint(fset.Position(pos).Line)})
	}
	for i := range out { // the line is informative only
		if out[i][0] != "IDENT" {
			out[i][2] = ""
		}
	}
	return out
}

func firstDiff(a, b []byte) string {
	la, lb := bytes.Split(a, []byte("\n")), bytes.Split(b, []byte("\n"))
	for i := 0; i < len(la) || i < len(lb); i++ {
		var x, y string
		if i < len(la) {
			x = string(la[i])
		} else {
			x = "<EOF>"
		}
		if i < len(lb) {
			y = string(lb[i])
		} else {
			y = "<EOF>"
		}
		if x != y {
			return fmt.Sprintf("line %d: expected %q got %q", i+1, x, y)
		}
	}
	return ""
}

func runExpect() {
	ents, err := os.ReadDir(*orig)
	must(err)
	enc := json.NewEncoder(os.Stdout)
	for _, e := range ents {
		n := e.Name()
		if e.IsDir() || !strings.HasSuffix(n, ".go") || n == "derived.gen.go" {
			continue
		}
		o := fileOut{File: n, Renames: [][3]string{}}
		ob, err := os.ReadFile(filepath.Join(*orig, n))
		must(err)
		nb, err := os.ReadFile(filepath.Join(*newd, n))
		if err != nil {
			o.Changed, o.Note = true, "file missing after the run"
			enc.Encode(o)
			continue
		}
		o.Changed = !bytes.Equal(ob, nb)
		o.GotSha = sha(nb)
		if fb, err := format.Source(ob); err == nil && bytes.Equal(fb, ob) {
			o.Formatted = true
		}
		fset := token.NewFileSet()
		of, err := parser.ParseFile(fset, n, ob, parser.ParseComments)
		o.ParseOrigOK = err == nil
		if !o.Changed {
			o.OK, o.OracleAgree = true, true
			o.ParseNewOK = o.ParseOrigOK
			o.ExpSha = sha(ob)
			if of != nil {
				o.Calls = len(callIdents(of))
			}
			enc.Encode(o)
			continue
		}
		if err != nil {
			// The original has syntax errors, so there is no gofmt(original) to compare with. Token-level oracle:
			// the rewritten text must have the same tokens (comments and literals included, white space aside) except
			// for identifiers that were substituted: nothing lost, nothing else altered.
			ot, nt := tokens(ob), tokens(nb)
			o.Note = "original does not parse: token-level comparison"
			o.OracleAgree = true
			o.ParseNewOK = true // not applicable
			o.OK = len(ot) == len(nt)
			if !o.OK {
				o.Note += fmt.Sprintf("; %d tokens before, %d after", len(ot), len(nt))
			}
			for i := 0; o.OK && i < len(ot); i++ {
				if ot[i][0] == nt[i][0] && (ot[i][1] == nt[i][1] ||
					((ot[i][0] == "INT" || ot[i][0] == "FLOAT" || ot[i][0] == "IMAG") && strings.EqualFold(ot[i][1], nt[i][1]))) {
					continue
				}
				if ot[i][0] == "IDENT" && nt[i][0] == "IDENT" && i+1 < len(ot) && (ot[i+1][0] == "(" || ot[i+1][0] == ")") {
					o.Renames = append(o.Renames, [3]string{ot[i][1], nt[i][1], ot[i][2]})
					continue
				}
				o.OK = false
				o.FirstDiff = fmt.Sprintf("token %d: %v became %v", i, ot[i], nt[i])
			}
			enc.Encode(o)
			continue
		}
		oids := callIdents(of)
		o.Calls = len(oids)
		nfset := token.NewFileSet()
		nf, nerr := parser.ParseFile(nfset, n, nb, parser.ParseComments)
		o.ParseNewOK = nerr == nil
		if nerr != nil {
			o.Note = "rewritten file does not parse: " + strings.SplitN(nerr.Error(), "\n", 2)[0]
		}
		var nids []*ast.Ident
		if nf != nil {
			nids = callIdents(nf)
		}
		if nerr == nil && len(nids) != len(oids) {
			o.Note = fmt.Sprintf("number of identifier calls changed: %d -> %d", len(oids), len(nids))
			enc.Encode(o)
			continue
		}
		// expected (2): textual substitution at byte offsets, then gofmt
		type sub struct {
			off, end int
			name     string
		}
		var subs []sub
		for i, id := range oids {
			if i >= len(nids) {
				break
			}
			if nids[i].Name != id.Name {
				p := fset.Position(id.Pos())
				o.Renames = append(o.Renames, [3]string{id.Name, nids[i].Name, fmt.Sprint(p.Line)})
				subs = append(subs, sub{p.Offset, p.Offset + len(id.Name), nids[i].Name})
			}
		}
		sort.Slice(subs, func(i, j int) bool { return subs[i].off > subs[j].off })
		txt := append([]byte{}, ob...)
		for _, s := range subs {
			txt = append(txt[:s.off:s.off], append([]byte(s.name), txt[s.end:]...)...)
		}
		exp2, err2 := format.Source(txt)
		// expected (1): the original AST with the names substituted, formatted
		for i, id := range oids {
			if i < len(nids) && nids[i].Name != id.Name {
				id.Name = nids[i].Name
			}
		}
		var buf bytes.Buffer
		err1 := format.Node(&buf, fset, of)
		exp1 := buf.Bytes()
		o.OracleAgree = err1 == nil && err2 == nil && bytes.Equal(exp1, exp2)
		if err1 != nil {
			o.Note += " format.Node failed: " + err1.Error()
		}
		o.ExpSha = sha(exp1)
		o.OK = err1 == nil && bytes.Equal(nb, exp1)
		if !o.OK && err2 == nil && bytes.Equal(nb, exp2) {
			o.OK = true
			o.Note += " (matches the textual oracle only)"
		}
		if !o.OK {
			o.FirstDiff = firstDiff(exp1, nb)
			if len(nb) > len(exp1) && bytes.HasPrefix(nb, exp1) && bytes.HasSuffix(ob, nb[len(exp1):]) {
				o.Leftover = true
			}
		}
		enc.Encode(o)
	}
}

// ---------------------------------------------------------------- corpus

type caseT struct {
	Dir     string   `json:"dir"`
	Kind    string   `json:"kind"`    // success | generr | loaderr | rename
	What    string   `json:"what"`
	Renames string   `json:"renames"` // which flags are expected to rename: "", "dedup", "autoname", "both"
	Length  string   `json:"length"`  // shorter | equal | longer | mixed | ""
	Gofmt   bool     `json:"gofmt"`   // the user files are gofmt-formatted
	Files   []string `json:"files"`
	Pkg     string   `json:"pkg"` // package directory inside the case directory ("" = the case directory itself)
	// History: an earlier version of some files. The check first puts these in place, runs goderive without flags
	// (so that the derived.gen.go of that earlier state exists), restores the current files and only then observes.
	History map[string]string `json:"history"`
	Broken  bool              `json:"broken"` // a user file has syntax errors: whatever happens, no user file may change
}

var cases []caseT

func add(c caseT, files map[string]string, modes map[string]os.FileMode) {
	c.Dir = fmt.Sprintf("k%03d", len(cases))
	var names []string
	for n := range files {
		names = append(names, n)
	}
	sort.Strings(names)
	for _, n := range names {
		p := filepath.Join(*out, c.Dir, n)
		must(os.MkdirAll(filepath.Dir(p), 0o755))
		must(os.WriteFile(p, []byte(strings.ReplaceAll(strings.ReplaceAll(files[n], "CASE", c.Dir), "PKG", c.Dir)), 0o644))
	}
	for n, m := range modes {
		must(os.Chmod(filepath.Join(*out, c.Dir, n), m))
	}
	c.Files = names
	for k, v := range c.History {
		c.History[k] = strings.ReplaceAll(strings.ReplaceAll(v, "CASE", c.Dir), "PKG", c.Dir)
	}
	cases = append(cases, c)
}

const types2 = `
type S struct {
	A int
	B []string
}

type T struct {
	X float64
	Y map[string]int
}
`

// a file head that gofmt changes beyond spacing: an unsorted import block (two groups) and number literals
// with upper-case prefixes / exponents
const importsLiterals = `package PKG

import (
	"strings"
	"fmt"
	"bytes"

	"sort"
	"os"
)

var (
	hexa = 0X1F
	expo = 1E3
	bina = 0B101
	octa = 0O17
	mant = 0X1P-2
	imag = 1E2i
)

func useImports(xs []string) string {
	sort.Strings(xs)
	return fmt.Sprint(strings.ToUpper("x"), bytes.MinRead, os.PathSeparator, hexa, expo, bina, octa, mant, imag, 0XFF, 2E0)
}
`

// bystanders: files goderive has no business touching
func bystanders(files map[string]string) map[string]os.FileMode {
	files["README.txt"] = "not a go file\n"
	files["data/blob.bin"] = "\x00\x01\x02\x03"
	files["sub/other.go"] = "package other\n\nfunc  Unformatted( )  { }\n"
	files["ro.go"] = "package PKG\n\n// read-only file\nconst RO = 1\n"
	files["secret.txt"] = "mode 0600\n"
	files["doc.go"] = "// Package PKG is a test package.\npackage PKG\n"
	return map[string]os.FileMode{"ro.go": 0o444, "secret.txt": 0o600}
}

// uglify turns a gofmt-formatted source into an equivalent unformatted one.
func uglify(r *rand.Rand, s string) string {
	var sb strings.Builder
	for _, line := range strings.Split(s, "\n") {
		switch {
		case strings.HasPrefix(line, "\t"):
			// tabs -> random spaces, odd spacing around some tokens
			body := strings.TrimLeft(line, "\t")
			depth := len(line) - len(body)
			body = strings.Replace(body, ", ", ",", 1)
			if r.Intn(2) == 0 {
				body = strings.Replace(body, " := ", ":=", 1)
			}
			sb.WriteString(strings.Repeat(" ", depth*(1+r.Intn(5))) + body + strings.Repeat(" ", r.Intn(3)))
		case strings.HasPrefix(line, "func "):
			sb.WriteString(strings.Replace(strings.Replace(line, ") ", ")   ", 1), "(", "( ", 1))
		default:
			sb.WriteString(line)
		}
		sb.WriteString("\n")
		if line == "" && r.Intn(3) == 0 {
			sb.WriteString("\n\n")
		}
	}
	return strings.TrimRight(sb.String(), "\n") + "\n"
}

func genCorpus() {
	r := rand.New(rand.NewSource(*seed))
	must(os.MkdirAll(*out, 0o755))
	must(os.WriteFile(filepath.Join(*out, "go.mod"), []byte("module fsx\n\ngo 1.24\n"), 0o644))

	good := "package PKG\n" + types2 + "\nfunc Eq(a, b *S) bool { return deriveEqual(a, b) }\n\nfunc Cmp(a, b *T) int { return deriveCompare(a, b) }\n\nfunc H(a *T) uint64 { return deriveHash(a) }\n"
	stale := "// Code generated by goderive DO NOT EDIT.\n\npackage PKG\n\nfunc deriveOld(a int) int { return a }\n"

	// --- outcomes without renaming
	for _, variant := range []string{"fresh", "stale", "uptodate-second-run", "unformatted"} {
		files := map[string]string{"u.go": good}
		if variant == "stale" {
			files["derived.gen.go"] = stale
		}
		if variant == "unformatted" {
			files["u.go"] = uglify(r, good)
		}
		modes := bystanders(files)
		add(caseT{Kind: "success", What: "valid package, " + variant, Gofmt: variant != "unformatted"}, files, modes)
	}
	{
		files := map[string]string{"u.go": "package PKG\n\nfunc X() int { return 1 }\n", "derived.gen.go": stale}
		modes := bystanders(files)
		add(caseT{Kind: "success", What: "no derive calls, stale derived.gen.go must be removed", Gofmt: true}, files, modes)
	}
	{
		files := map[string]string{"u.go": "package PKG\n\nfunc X() int { return 1 }\n"}
		modes := bystanders(files)
		add(caseT{Kind: "success", What: "no derive calls, nothing to write", Gofmt: true}, files, modes)
	}
	for _, variant := range []string{"fresh", "stale"} {
		files := map[string]string{"u.go": good + "\nfunc Bad(a, b chan int) bool { return deriveEqualC(a, b) }\n"}
		if variant == "stale" {
			files["derived.gen.go"] = stale
		}
		modes := bystanders(files)
		add(caseT{Kind: "generr", What: "generator error (chan argument), " + variant, Gofmt: true}, files, modes)
	}
	{
		files := map[string]string{"u.go": good + "\nfunc Dup(a, b *S) bool { return deriveEqualAgain(a, b) }\n"}
		modes := bystanders(files)
		add(caseT{Kind: "rename", What: "duplicate (two names for *S): error without flags, -dedup renames deriveEqualAgain to deriveEqual", Renames: "dedup", Length: "shorter", Gofmt: true}, files, modes)
	}
	{
		files := map[string]string{"u.go": good + "\nfunc Conf(a, b *T) bool { return deriveEqual(a, b) }\n"}
		modes := bystanders(files)
		add(caseT{Kind: "rename", What: "conflict (deriveEqual for *S and *T): error without flags, -autoname renames the second", Renames: "autoname", Length: "longer", Gofmt: true}, files, modes)
	}
	for _, variant := range []string{"syntax", "import", "notgo", "twopackages", "allbroken", "cycle"} {
		files := map[string]string{"u.go": good}
		switch variant {
		case "syntax":
			files["v.go"] = "package PKG\n\nfunc Broken( {\n"
		case "import":
			files["v.go"] = "package PKG\n\nimport \"no/such/pkg\"\n\nvar _ = pkg.X\n"
		case "notgo":
			files["u.go"] = "this is not go\n"
		case "twopackages":
			files["v.go"] = "package somethingelse\n\nfunc X() {}\n"
		case "allbroken":
			files["u.go"] = good + "\nfunc Broken( {\n"
			files["v.go"] = "package PKG\n\nfunc AlsoBroken( {\n"
		case "cycle":
			files["v.go"] = "package PKG\n\nimport self \"fsx/PKG\"\n\nvar _ = self.Eq\n"
		}
		modes := bystanders(files)
		add(caseT{Kind: "loaderr", What: "load problem: " + variant, Gofmt: true}, files, modes)
	}

	// --- the rename pool
	type rn struct {
		what, flags, length string
		first, second       string // names of two calls on the same type (dedup) / the shared name (autoname)
	}
	dedups := []rn{
		{"dedup to a shorter name", "dedup", "shorter", "deriveEq", "deriveEqualLongName"},
		{"dedup to a longer name", "dedup", "longer", "deriveEqualLongName", "deriveEq"},
		{"dedup to a name of equal length", "dedup", "equal", "deriveEqualA", "deriveEqualB"},
		{"dedup to a much shorter name in a long file", "dedup", "shorter", "deriveEqual", "deriveEqualWithAnExtraordinarilyLongSuffixThatGoesOnAndOn"},
	}
	layouts := []string{"onefile", "twofiles", "testfile", "trailing-comments", "unformatted", "unformatted-twofiles", "nonewline-at-eof", "crlf", "manycalls",
		"imports-literals", "imports-literals-unformatted"}
	for _, d := range dedups {
		pick := map[string]bool{"onefile": true, "unformatted": true, "trailing-comments": true, "imports-literals": true, "imports-literals-unformatted": true}
		for _, i := range r.Perm(len(layouts))[:4] {
			pick[layouts[i]] = true
		}
		for _, lay := range layouts {
			if !*thorough && !pick[lay] {
				continue
			}
			head := "package PKG\n" + types2
			f1 := fmt.Sprintf("\nfunc Eq1(a, b *S) bool { return %s(a, b) }\n", d.first)
			f2 := fmt.Sprintf("\nfunc Eq2(a, b *S) bool {\n\tif a == nil {\n\t\treturn b == nil\n\t}\n\treturn %s(a, b) // trailing comment after the renamed call\n}\n\n// Tail is a declaration after the renamed call.\nfunc Tail() string {\n\treturn \"tail\" // the end\n}\n", d.second)
			files := map[string]string{}
			gofmt := true
			switch lay {
			case "onefile":
				files["u.go"] = head + f1 + f2
			case "twofiles":
				files["a.go"] = head + f1
				files["b.go"] = "package PKG\n" + f2
			case "testfile":
				files["u.go"] = head + f1
				files["u_test.go"] = "package PKG\n" + f2
			case "trailing-comments":
				files["u.go"] = "// Copyright header comment.\n\n// Package PKG doc.\npackage PKG // clause comment\n" + types2 + f1 +
					fmt.Sprintf("\n/* block\n   comment */\nfunc Eq2(a, b *S) bool { // after brace\n\t// before the call\n\tr := %s( /* inside args */ a, b) // after the call\n\t/* lonely */\n\treturn r // done\n} // after func\n\n// trailing comment at the very end of the file\n", d.second)
			case "unformatted":
				files["u.go"] = uglify(r, head+f1+f2)
				gofmt = false
			case "unformatted-twofiles":
				files["a.go"] = uglify(r, head+f1)
				files["b.go"] = uglify(r, "package PKG\n"+f2)
				gofmt = false
			case "nonewline-at-eof":
				files["u.go"] = strings.TrimRight(head+f1+f2, "\n") + "\n// no newline after this comment"
				gofmt = false
			case "crlf":
				files["u.go"] = strings.ReplaceAll(head+f1+f2, "\n", "\r\n")
				gofmt = false
			case "imports-literals", "imports-literals-unformatted":
				// what only gofmt (go/format) does on top of go/printer: import sorting, number-literal normalisation
				files["u.go"] = importsLiterals + types2 + f1 + f2
				if lay == "imports-literals-unformatted" {
					files["u.go"] = uglify(r, files["u.go"])
				}
				gofmt = false
			case "manycalls":
				var sb strings.Builder
				sb.WriteString(head + f1)
				for i := 0; i < 6; i++ {
					fmt.Fprintf(&sb, "\nfunc Many%d(a, b *S) bool { return %s(a, b) && %s(b, a) }\n", i, d.second, d.first)
				}
				files["u.go"] = sb.String()
			}
			modes := bystanders(files)
			add(caseT{Kind: "rename", What: d.what + ", " + lay, Renames: "dedup", Length: d.length, Gofmt: gofmt}, files, modes)
		}
	}
	autos := []rn{
		{"autoname to a longer name (deriveEqual -> deriveEqual_)", "autoname", "longer", "deriveEqual", ""},
		{"autoname to a shorter name (deriveEqualVeryLongConflictingName -> deriveEqual)", "autoname", "shorter", "deriveEqualVeryLongConflictingName", ""},
	}
	for _, a := range autos {
		for _, lay := range []string{"onefile", "twofiles", "unformatted", "trailing-comments", "imports-literals"} {
			head := "package PKG\n" + types2
			f1 := fmt.Sprintf("\nfunc Eq1(a, b *S) bool { return %s(a, b) }\n", a.first)
			f2 := fmt.Sprintf("\nfunc Eq2(a, b *T) bool {\n\treturn %s(a, b) // same name, other type\n}\n\nfunc Tail() string { return \"tail\" }\n", a.first)
			files := map[string]string{}
			gofmt := true
			switch lay {
			case "onefile":
				files["u.go"] = head + f1 + f2
			case "twofiles":
				files["a.go"] = head + f1
				files["b.go"] = "package PKG\n" + f2
			case "unformatted":
				files["u.go"] = uglify(r, head+f1+f2)
				gofmt = false
			case "trailing-comments":
				files["u.go"] = head + f1 + strings.Replace(f2, "func Tail", "// about Tail\nfunc Tail", 1) + "\n// the end\n"
			case "imports-literals":
				files["u.go"] = importsLiterals + types2 + f1 + f2
				gofmt = false
			}
			modes := bystanders(files)
			add(caseT{Kind: "rename", What: a.what + ", " + lay, Renames: "autoname", Length: a.length, Gofmt: gofmt}, files, modes)
		}
	}
	// --- multi-file packages with in-package _test.go files whose names sort before / between the other
	// files (the loader lists test files last: file order by name and loader order differ); the call that
	// keeps its name (anchor) and the call that is renamed (target) are placed in each file in turn; every
	// file carries its own declarations and comments, so a file written with another file's contents shows
	multi := []string{"a_test.go", "eq.go", "eq_test.go", "util.go", "zz_test.go"}
	filler := func(fn string, i int) string {
		return fmt.Sprintf("// file %s of the package: its own doc comment.\npackage PKG\n\n// Marker%d belongs to %s only.\nfunc Marker%d() string {\n\treturn %q // trailing remark in %s\n}\n", fn, i, fn, i, fn, fn)
	}
	for ai, anchor := range multi {
		for ti, target := range multi {
			if ai == ti {
				continue
			}
			for _, kind := range []string{"dedup", "autoname"} {
				if kind == "autoname" && !*thorough && (ai+ti)%3 != int(*seed)%3 {
					continue
				}
				files := map[string]string{}
				for i, fn := range multi {
					files[fn] = filler(fn, i)
				}
				files["types.go"] = "package PKG\n" + types2
				files[anchor] += "\n// Anchor keeps the name of its derive call.\nfunc Anchor(a, b *S) bool {\n\treturn deriveEqual(a, b) // anchor call\n}\n"
				if kind == "dedup" {
					files[target] += "\n// Target holds the duplicate.\nfunc Target(a, b *S) bool {\n\t// a second name for the same argument types\n\treturn deriveEqualSecondName(a, b) // target call\n}\n"
				} else {
					files[target] += "\n// Target holds the conflicting call.\nfunc Target(a, b *T) bool {\n\t// the same name for other argument types\n\treturn deriveEqual(a, b) // target call\n}\n"
				}
				modes := bystanders(files)
				add(caseT{Kind: "rename", What: fmt.Sprintf("multi-file with in-package test files, %s: anchor in %s, clashing call in %s", kind, anchor, target),
					Renames: kind, Length: map[string]string{"dedup": "shorter", "autoname": "longer"}[kind], Gofmt: true}, files, modes)
			}
		}
	}

	// --- renames that happen in a SECOND generation round: the argument of the clashing call is itself a
	// derive call that does not exist yet, so the call is registered (and renamed) only after the reload;
	// the file carries package doc, doc comments, inline / trailing comments and //go: directives
	secondRound := func(call string) string {
		return "// Package PKG: the package documentation must survive the rewrite.\n//\n// Second paragraph of the package documentation.\npackage PKG\n\nimport \"strconv\"\n\n" +
			"//go:generate echo a directive that must stay\n\n// EqInts compares two lists of numbers.\nfunc EqInts(a, b []int) bool {\n\t// this call keeps its name\n\treturn deriveEqual(a, b) // trailing remark one\n}\n\n" +
			"// EqStrings compares two lists of strings.\nfunc EqStrings(a, b []string) bool {\n\treturn deriveEqualStrings(a, b) /* block remark */\n}\n\n" +
			"// EqDecimal compares the decimal form of xs with ys.\n//\n// The argument of the outer call is itself a derive call: it is registered in the second round.\n//\n//go:noinline\nfunc EqDecimal(xs []int, ys []string) bool {\n\t// this call clashes and is renamed in the second round\n\treturn " + call + " // trailing remark two\n}\n\n" +
			"/* a block comment between declarations */\n\n// Tail is declared after the renamed call.\nfunc Tail() string {\n\treturn \"tail\" // the end\n}\n\n// a comment at the very end of the file\n"
	}
	// one file with a call renamed in the FIRST pass and a call renamed in a LATER pass (the file is written twice)
	{
		src := "// Package PKG: shapes.\npackage PKG\n\ntype Circle struct{ R int }\n\ntype Square struct{ Side *int }\n\nfunc sameCircle(x, y *Circle) bool { return deriveEqual(x, y) } // keeps its name\n\n" +
			"// the same name for another type: renamed in the first pass\nfunc sameSquare(x, y *Square) bool { return deriveEqual(x, y) } // first pass\n\n" +
			"// the arguments have a type only after deriveSort and deriveKeys exist: renamed in a later pass\nfunc sameNames(byName map[string]*Circle, names []string) bool {\n\treturn deriveEqual(deriveSort(deriveKeys(byName)), names) // later pass\n}\n"
		dupSrc := strings.Replace(strings.Replace(src, "func sameSquare(x, y *Square) bool { return deriveEqual(x, y) }", "func sameSquare(x, y *Circle) bool { return deriveEqualAgain(x, y) }", 1),
			"return deriveEqual(deriveSort(deriveKeys(byName)), names)", "return deriveEqualStrs(deriveSort(deriveKeys(byName)), names) && deriveEqualStrings(names, names)", 1)
		for _, v := range []struct{ what, s, flags, length string }{
			{"first-pass and later-pass conflict in one file", src, "autoname", "longer"},
			{"first-pass and later-pass duplicate in one file", dupSrc, "dedup", "shorter"},
		} {
			for _, un := range []bool{false, true} {
				txt := v.s
				if un {
					txt = uglify(r, txt)
				}
				files := map[string]string{"shapes.go": txt, "other.go": "package PKG\n\n// Other holds no call.\nfunc Other() {}\n"}
				modes := bystanders(files)
				add(caseT{Kind: "rename", What: v.what + map[bool]string{true: ", unformatted", false: ""}[un], Renames: v.flags, Length: v.length, Gofmt: !un}, files, modes)
			}
		}
	}
	for _, sr := range []struct{ what, call, flags, length string }{
		{"second-round conflict (deriveEqual for []int and, after deriveFmap exists, for []string)", "deriveEqual(deriveFmap(strconv.Itoa, xs), ys)", "autoname", "longer"},
		{"second-round duplicate (a second name for []string, known only after deriveFmap exists)", "deriveEqualOfDecimals(deriveFmap(strconv.Itoa, xs), ys)", "dedup", "shorter"},
	} {
		for _, lay := range []string{"onefile", "twofiles", "unformatted"} {
			src := secondRound(sr.call)
			if sr.flags == "autoname" {
				src = strings.Replace(src, "deriveEqualStrings(a, b)", "deriveEqualStr(a, b)", 1)
			}
			files := map[string]string{}
			gofmt := true
			switch lay {
			case "onefile":
				files["u.go"] = src
			case "twofiles":
				i := strings.Index(src, "// EqDecimal compares")
				j := strings.Index(src, "/* a block comment between")
				files["a.go"] = src[:i] + src[j:]
				files["b.go"] = "// second file: the second-round call lives here.\npackage PKG\n\nimport \"strconv\"\n\n" + src[i:j] + "// end of b.go\n"
			case "unformatted":
				files["u.go"] = uglify(r, src)
				gofmt = false
			}
			modes := bystanders(files)
			add(caseT{Kind: "rename", What: sr.what + ", " + lay, Renames: sr.flags, Length: sr.length, Gofmt: gofmt}, files, modes)
		}
	}

	// --- //line directives (goyacc style): the file name goderive works with must be the real one. The package
	// lives in <case>/q, the directive's targets in sibling directories of the same case; ABSROOT is replaced by
	// the absolute path of the module copy before the run. The whole module tree is snapshotted.
	{
		body := types2 + "\n// Eq1 keeps its name.\nfunc Eq1(a, b *S) bool { return deriveEqual(a, b) }\n"
		clash := "\n// Eq2 holds a duplicate that -dedup renames.\nfunc Eq2(a, b *S) bool {\n\treturn deriveEqualAgain(a, b) // trailing comment\n}\n\n// Eq3 holds a conflict that -autoname renames.\nfunc Eq3(a, b *T) bool { return deriveEqual(a, b) }\n"
		grammar := "%{\npackage q\n%}\n%%\nstart: ;\n%%\n// grammar source: must stay byte for byte\n"
		type lv struct{ what, directive string }
		for _, v := range []lv{
			{"relative target that exists", "//line ../grammar/query.y:2"},
			{"relative target that does not exist", "//line ../nowhere/query.y:2"},
			{"absolute target that exists", "//line ABSROOT/CASE/grammar/query.y:7"},
			{"absolute target that does not exist", "//line ABSROOT/CASE/elsewhere/none.y:1"},
			{"target is another .go file of the same package", "//line other.go:1"},
			{"target is a .go file of a sibling package", "//line ../sib/sib.go:1"},
			{"block-comment form", "/*line ../grammar/query.y:3:1*/"},
		} {
			for _, place := range []string{"before the package clause", "in the middle of the file"} {
				for _, withClash := range []bool{false, true} {
					var src string
					if place == "before the package clause" {
						src = v.directive + "\npackage q\n" + body
					} else {
						src = "// Package q is generated from a grammar.\npackage q\n" + types2 + "\n" + v.directive + "\nfunc Eq1(a, b *S) bool { return deriveEqual(a, b) }\n"
					}
					if withClash {
						src += clash
					}
					files := map[string]string{
						"q/a_gen.go": src, // sorts first in its package
						"q/other.go":         "package q\n\n// Other must stay as it is.\nfunc Other( ) int { return 1 }\n",
						"grammar/query.y":    grammar,
						"sib/sib.go":         "package sib\n\n// Sib must stay as it is.\nfunc Sib() {}\n",
						"README.txt":         "case root\n",
					}
					rn, ln := "", ""
					if withClash {
						rn, ln = "both", "mixed"
					}
					kind := "success"
					if withClash {
						kind = "rename"
					}
					add(caseT{Kind: kind, What: fmt.Sprintf("//line directive %s, %s (%s)%s", place, v.what, v.directive, map[bool]string{true: ", with clashing calls", false: ""}[withClash]),
						Renames: rn, Length: ln, Gofmt: true, Pkg: "q"}, files, nil)
				}
			}
		}
	}

	// --- constructs that gofmt keeps but an AST round trip can lose, in the SAME file as a renamed call
	{
		lossy := "//go:build !neverset\n// +build !neverset\n\n// Package PKG: doc comment after the build constraints.\npackage PKG\n\nimport \"unsafe\"\n" + types2 +
			"\n// Ω has a non-ASCII name and field.\ntype Ω struct{ ñ int }\n\n// Num is a constraint.\ntype Num interface{ ~int | ~float64 }\n\n" +
			"// Sum is generic.\nfunc Sum[T Num](xs ...T) T {\n\tvar s T\n\tfor _, x := range xs {\n\t\ts += (x)\n\t}\n\treturn (s)\n}\n\n" +
			"var raw = `raw \"string\" with \\n and a tab\t inside` + \"`\" + `second part`\n\n" +
			"func conv(s string, v float64, p unsafe.Pointer, c chan int, f func(int) int, ω Ω) int {\n\tb := ([]byte)(s)\n\tn := (int)(v)\n\tq := (*S)(p)\n\tr := (<-chan int)(c)\n\tg := (func(int) int)(f)\n\tm := (f)(n) + (g)((n + 1)) + (Sum[int])(1, 2)\n" +
			"outer:\n\tfor i := 0; i < (n + 2); i++ {\n\t\tfor range b {\n\t\t\tcontinue outer\n\t\t}\n\t}\n\t_, _ = q, r\n\tünï := (len(b) + m) + (ω.ñ)\n\treturn (ünï) + len(raw)\n}\n\n" +
			"// Eq1 keeps its name; the parenthesised callee is legal Go.\nfunc Eq1(a, b *S) bool { return deriveEqual(a, b) && (deriveEqual)(b, a) }\n"
		dup := "\n// Eq2 holds the duplicate.\nfunc Eq2(a, b *S) bool {\n\treturn deriveEqualAgain(a, b) && (len)(a.B) == (len(b.B)) // trailing\n}\n"
		conf := "\n// Eq3 holds the conflict.\nfunc Eq3(a, b *T) bool {\n\treturn deriveEqual(a, b) && (int)(a.X) == (int)(b.X)\n}\n"
		for _, v := range []struct{ what, src, flags, length string }{
			{"parenthesised callees / conversions, labels, build tags, raw strings, non-ASCII identifiers, generics + duplicate", lossy + dup, "dedup", "shorter"},
			{"parenthesised callees / conversions, labels, build tags, raw strings, non-ASCII identifiers, generics + conflict", lossy + conf, "autoname", "longer"},
			{"the same, duplicate and conflict", lossy + dup + conf, "both", "mixed"},
		} {
			files := map[string]string{"u.go": v.src}
			modes := bystanders(files)
			add(caseT{Kind: "rename", What: v.what, Renames: v.flags, Length: v.length, Gofmt: true}, files, modes)
			files = map[string]string{"u.go": uglify(r, v.src)}
			modes = bystanders(files)
			add(caseT{Kind: "rename", What: v.what + ", unformatted", Renames: v.flags, Length: v.length, Gofmt: false}, files, modes)
		}
	}

	// --- comments around a renamed callee (F60: the identifier is renamed in place)
	{
		head := "package PKG\n" + types2 + "\nfunc Eq1(a, b *S) bool { return deriveEqual(a, b) }\n"
		shapes := []struct{ what, dup, conf string }{
			{"block comments before and after the callee",
				"func Eq2(a, b *S) bool {\n\treturn /* c */ deriveEqualAgain /* d */ (a, b)\n}\n",
				"func Eq3(a, b *T) bool {\n\treturn /* c */ deriveEqual /* d */ (a, b)\n}\n"},
			{"a line comment forcing the call onto the next line",
				"func Eq2(a, b *S) bool {\n\treturn true && // why\n\t\tderiveEqualAgain(a, b)\n}\n",
				"func Eq3(a, b *T) bool {\n\treturn true && // why\n\t\tderiveEqual(a, b)\n}\n"},
			{"callee at the start of a line after a comment line",
				"func Eq2(a, b *S) bool {\n\tr :=\n\t\t// the call follows\n\t\tderiveEqualAgain(a, b)\n\treturn r\n}\n",
				"func Eq3(a, b *T) bool {\n\tr :=\n\t\t// the call follows\n\t\tderiveEqual(a, b)\n\treturn r\n}\n"},
			{"comments inside the argument list and after the call",
				"func Eq2(a, b *S) bool {\n\treturn deriveEqualAgain( // first\n\t\ta, /* mid */ b, // second\n\t) // after\n}\n",
				"func Eq3(a, b *T) bool {\n\treturn deriveEqual( // first\n\t\ta, /* mid */ b, // second\n\t) // after\n}\n"},
			{"doc comment, directive and a comment group between declarations",
				"// Eq2 doc.\n//\n//go:noinline\nfunc Eq2(a, b *S) bool { return deriveEqualAgain(a, b) } // trailing\n\n/* lonely\n   block */\n\n// another group\n",
				"// Eq3 doc.\n//\n//go:noinline\nfunc Eq3(a, b *T) bool { return deriveEqual(a, b) } // trailing\n\n/* lonely\n   block */\n"},
		}
		for _, sh := range shapes {
			for _, k := range []string{"dedup", "autoname", "both"} {
				src := head + "\n"
				if k != "autoname" {
					src += sh.dup + "\n"
				}
				if k != "dedup" {
					src += sh.conf + "\n"
				}
				ln := map[string]string{"dedup": "shorter", "autoname": "longer", "both": "mixed"}[k]
				files := map[string]string{"u.go": src}
				modes := bystanders(files)
				add(caseT{Kind: "rename", What: "comments around the renamed callee: " + sh.what + " (" + k + ")", Renames: k, Length: ln, Gofmt: false}, files, modes)
			}
		}
	}

	// --- cgo: a file that imports "C" and holds a call to rename, in a package without any syntax error (what the loader
	// hands back for such a file is cgo's translation, not the user's text: untouched + message, or exactly the renames)
	{
		cgo := "package PKG\n\n/*\nstatic int twice(int x) { return 2 * x; }\n*/\nimport \"C\"\n\nimport \"fmt\"\n" + types2 +
			"\n// Twice calls into C.\nfunc Twice(n int) string {\n\treturn fmt.Sprint(int(C.twice(C.int(n)))) // through cgo\n}\n\nfunc Eq1(a, b *S) bool { return deriveEqual(a, b) }\n"
		dup := "\nfunc Eq2(a, b *S) bool { return deriveEqualAgain(a, b) } // renamed by -dedup\n"
		conf := "\nfunc Eq3(a, b *T) bool { return deriveEqual(a, b) } // renamed by -autoname\n"
		plain := "package PKG\n\n// Plain holds the clash, the cgo file does not.\n"
		for _, v := range []struct {
			what, flags, length string
			files               map[string]string
		}{
			{"cgo file with a duplicate", "dedup", "shorter", map[string]string{"c.go": cgo + dup}},
			{"cgo file with a conflict", "autoname", "longer", map[string]string{"c.go": cgo + conf}},
			{"cgo file with a duplicate and a conflict", "both", "mixed", map[string]string{"c.go": cgo + dup + conf}},
			{"cgo file next to a plain file that holds the clash", "dedup", "shorter", map[string]string{"c.go": cgo, "p.go": plain + "func Eq2(a, b *S) bool { return deriveEqualAgain(a, b) }\n"}},
			{"cgo file without any clash (control)", "", "", map[string]string{"c.go": cgo}},
		} {
			modes := bystanders(v.files)
			kind := "rename"
			if v.flags == "" {
				kind = "success"
			}
			add(caseT{Kind: kind, What: v.what, Renames: v.flags, Length: v.length, Gofmt: true}, v.files, modes)
		}
	}

	// --- -autoname with prefix and prefix_ taken: the made-up name continues with the first LETTER of the type name, which is
	// not one byte for Ärger, Ünit, 世界 (three calls of one name, or a user function named prefix_)
	for _, tn := range []string{"Ärger", "Ünit", "世界", "Éa", "Plain"} {
		for _, imp := range []string{"import (\n\t\"fmt\"\n\t\"strings\"\n)\n", "import \"fmt\"\n", ""} {
			for _, how := range []string{"three-calls", "user-function"} {
				use := "var _ = fmt.Sprint\n"
				if strings.Contains(imp, "strings") {
					use += "\nvar _ = strings.ToUpper\n"
				}
				if imp == "" {
					use = ""
				}
				src := "// Package PKG: names that do not start with an ASCII letter.\npackage PKG\n\n" + imp + "\n" + use + "\ntype " + tn + " struct {\n\tA int\n\tB string\n}\n\ntype S struct{ L []int }\n\n" +
					"func One(a, b *S) bool { return deriveEqual(a, b) } // keeps its name\n\n"
				if how == "three-calls" {
					src += "func Two(a, b []int) bool { return deriveEqual(a, b) } // renamed first\n\n"
				} else {
					src += "// deriveEqual_ is the user's own.\nfunc deriveEqual_() {}\n\nfunc callIt() { deriveEqual_() }\n\n"
				}
				src += "// Three compares values of the named type.\nfunc Three(a, b " + tn + ") bool {\n\treturn deriveEqual(a, b) // renamed to a name made from the type's first letter\n}\n\n// Tail must survive.\nfunc Tail() string { return \"tail\" }\n"
				files := map[string]string{"u.go": src}
				modes := bystanders(files)
				add(caseT{Kind: "rename", What: fmt.Sprintf("-autoname makes up a name from the first letter of type %s (%s, imports: %q)", tn, how, strings.ReplaceAll(imp, "\n", " ")),
					Renames: "autoname", Length: "longer", Gofmt: false}, files, modes)
			}
		}
	}

	// --- percent signs anywhere in a rewritten file (the text must never pass through a format string)
	{
		pct := "package PKG\n\nimport \"fmt\"\n" + types2 +
			"\n// Share returns x as a share of 100% (a comment with a percent sign).\nfunc Share(x, y int) string {\n\tr := x % y // the % operator\n\tr %= 7\n\treturn fmt.Sprintf(\"%d%% of %s: %v %5.2f %[1]d %x %q %T %+v %#v %%d\", r, \"total\", y, 1.5, \"s\", x, y, r) + `raw %d %s %%` + \"100%\"\n}\n\n" +
			"/* block comment: 50% off, %s, %!d(MISSING) */\n\nfunc Eq1(a, b *S) bool { return deriveEqual(a, b) } // 100% equal\n"
		dup := "\nfunc Eq2(a, b *S) bool { return deriveEqualAgain(a, b) && fmt.Sprint(\"%v\") != \"%\" } // renamed, %d stays\n"
		conf := "\nfunc Eq3(a, b *T) bool { return deriveEqual(a, b) || 7%3 == 1 } // renamed, % stays\n"
		for _, v := range []struct{ what, src, flags, length string }{
			{"percent signs in strings, operators and comments + duplicate", pct + dup, "dedup", "shorter"},
			{"percent signs in strings, operators and comments + conflict", pct + conf, "autoname", "longer"},
			{"percent signs in strings, operators and comments + both", pct + dup + conf, "both", "mixed"},
		} {
			files := map[string]string{"u.go": v.src}
			modes := bystanders(files)
			add(caseT{Kind: "rename", What: v.what, Renames: v.flags, Length: v.length, Gofmt: true}, files, modes)
			files = map[string]string{"u.go": uglify(r, v.src)}
			modes = bystanders(files)
			add(caseT{Kind: "rename", What: v.what + ", unformatted", Renames: v.flags, Length: v.length, Gofmt: false}, files, modes)
		}
	}

	// --- user files with syntax errors that hold a call to rename (F61: refused, nothing written back)
	{
		headOK := "package PKG\n" + types2 + "\nfunc Eq1(a, b *S) bool { return deriveEqual(a, b) }\n"
		dup := "\nfunc Eq2(a, b *S) bool { return deriveEqualAgain(a, b) }\n"
		conf := "\nfunc Eq3(a, b *T) bool { return deriveEqual(a, b) }\n"
		errs := []struct{ what, text string }{
			{"bad expression", "\nfunc Broken1() int { return 1 + }\n"},
			{"bad statement", "\nfunc Broken2() {\n\tif {\n\t}\n\tx := := 1\n}\n"},
			{"bad declaration", "\nfunc ( {\n\nvar = 5\n"},
			{"unterminated string", "\nvar s = \"never closed\n"},
			{"two operands without an operator (no Bad node)", "\nfunc Lost1() int {\n\tx := 1 2\n\treturn x\n}\n"},
			{"two expressions after return (no Bad node)", "\nfunc Lost2(a, b int) int {\n\treturn a b\n}\n"},
			{"missing comma in a call (no Bad node)", "\nfunc Lost3(a, b int) int {\n\treturn max(a b)\n}\n"},
			{"stray tokens after a complete statement", "\nfunc Lost4() int {\n\ty := 3 ) ] extra\n\treturn y\n}\n"},
			{"illegal character", "\nvar q = 1 # 2\n"},
		}
		for _, e := range errs {
			for _, where := range []string{"before", "after", "other-file"} {
				for _, k := range []string{"dedup", "autoname"} {
					clash := dup
					if k == "autoname" {
						clash = conf
					}
					files := map[string]string{}
					switch where {
					case "before":
						files["u.go"] = headOK + e.text + clash + "\n// Tail must survive.\nfunc Tail() {}\n"
					case "after":
						files["u.go"] = headOK + clash + e.text + "\n// Tail must survive.\nfunc Tail() {}\n"
					case "other-file":
						files["u.go"] = headOK + clash
						files["v.go"] = "package PKG\n" + e.text + "\n// Tail must survive.\nfunc Tail() {}\n"
					}
					modes := bystanders(files)
					add(caseT{Kind: "loaderr", What: fmt.Sprintf("syntax error (%s) %s the call to rename (%s)", e.what, where, k), Renames: k, Gofmt: false, Broken: where != "other-file"}, files, modes)
				}
			}
		}
	}

	// --- history: an old derived.gen.go is present, a newly added call reuses a generated name for another
	// argument type list in the first file, further files follow (both clashing calls resolve into the old file)
	{
		types := "package PKG\n" + types2
		a1 := "package PKG\n\n// Eq1 was there before.\nfunc Eq1(a, b *S) bool { return deriveEqual(a, b) } // old call\n"
		a2 := a1 + "\n// EqT is new: the same name for another argument type.\nfunc EqT(a, b *T) bool {\n\treturn deriveEqual(a, b) // new call\n}\n"
		a2dup := a1 + "\n// EqAgain is new: another name for the same argument type.\nfunc EqAgain(a, b *S) bool {\n\treturn deriveEqualAgain(a, b) // new call\n}\n"
		bfile := "package PKG\n\n// Cmp lives in a later file.\nfunc Cmp(a, b *T) int { return deriveCompare(a, b) } // later file\n"
		cfile := "package PKG\n\n// H lives in the last file.\nfunc H(a *S) uint64 { return deriveHash(a) }\n"
		for _, v := range []struct{ what, now, flags, length string }{
			{"new conflicting call in the first file, old derived.gen.go present", a2, "autoname", "longer"},
			{"new duplicate call in the first file, old derived.gen.go present", a2dup, "dedup", "shorter"},
		} {
			for _, nfiles := range []int{1, 2, 3} {
				files := map[string]string{"a.go": v.now, "types.go": types}
				hist := map[string]string{"a.go": a1}
				if nfiles >= 2 {
					files["b.go"] = bfile
				}
				if nfiles >= 3 {
					files["c.go"] = cfile
				}
				modes := bystanders(files)
				add(caseT{Kind: "rename", What: fmt.Sprintf("history: %s, %d file(s) with calls", v.what, nfiles), Renames: v.flags, Length: v.length, Gofmt: true, History: hist}, files, modes)
			}
		}
		// the clash sits in a LATER file, the earlier files hold calls that resolve into the old output
		files := map[string]string{"a.go": a1, "types.go": types, "b.go": bfile + "\nfunc EqT(a, b *T) bool { return deriveEqual(a, b) } // new call in the later file\n", "c.go": cfile}
		modes := bystanders(files)
		add(caseT{Kind: "rename", What: "history: new conflicting call in a later file, old derived.gen.go present", Renames: "autoname", Length: "longer", Gofmt: true,
			History: map[string]string{"b.go": bfile}}, files, modes)
	}

	// --- a subset of a module: the named package imports another package of the module that has derive calls of its
	// own (some only in its test files, some that the flags would rename): nothing outside the named package's
	// directory may change
	{
		stock := "// Package stock is NOT named on the command line.\npackage stock\n\ntype Item struct {\n\tName string\n\tTags []string\n}\n\n// Same has a call of its own.\nfunc Same(a, b *Item) bool { return deriveEqual(a, b) }\n\n// Dup would be renamed by -dedup.\nfunc Dup(a, b *Item) bool { return deriveEqualAgain(a, b) } // stays as written\n\n// Conf would be renamed by -autoname.\nfunc Conf(a, b []string) bool { return deriveEqual(a, b) }\n"
		stockClean := strings.Replace(strings.Replace(stock, "func Dup(a, b *Item) bool { return deriveEqualAgain(a, b) } // stays as written\n", "", 1), "func Conf(a, b []string) bool { return deriveEqual(a, b) }\n", "", 1)
		stockTest := "package stock\n\nimport \"testing\"\n\nfunc TestItem(t *testing.T) {\n\tif deriveCompare(&Item{}, &Item{}) != 0 || deriveHash(&Item{}) != deriveHash(&Item{}) {\n\t\tt.Fatal()\n\t}\n}\n"
		shop := "package shop\n\nimport \"fsx/CASE/stock\"\n\ntype Order struct {\n\tItems []stock.Item\n\tFirst *stock.Item\n}\n\nfunc Eq(a, b *Order) bool { return deriveEqual(a, b) }\n\nfunc H(a *Order) uint64 { return deriveHash(a) }\n"
		shopClash := shop + "\nfunc EqAgain(a, b *Order) bool { return deriveEqualAgain(a, b) } // renamed by -dedup\n"
		staleStock := "// Code generated by goderive DO NOT EDIT.\n\npackage stock\n\nfunc deriveEqual(this, that *Item) bool { return this == that }\n"
		for _, v := range []struct {
			what  string
			files map[string]string
			kind  string
		}{
			{"imported package with clean calls and test-only calls, no derived.gen.go there", map[string]string{"shop/shop.go": shop, "stock/stock.go": stockClean, "stock/stock_test.go": stockTest}, "success"},
			{"imported package with a stale derived.gen.go", map[string]string{"shop/shop.go": shop, "stock/stock.go": stockClean, "stock/stock_test.go": stockTest, "stock/derived.gen.go": staleStock}, "success"},
			{"imported package with calls the flags would rename", map[string]string{"shop/shop.go": shop, "stock/stock.go": stock, "stock/stock_test.go": stockTest}, "success"},
			{"imported package with calls the flags would rename, the named package has one too", map[string]string{"shop/shop.go": shopClash, "stock/stock.go": stock, "stock/stock_test.go": stockTest}, "rename"},
		} {
			v.files["README.txt"] = "module subset\n"
			rn, ln := "", ""
			if v.kind == "rename" {
				rn, ln = "dedup", "shorter"
			}
			add(caseT{Kind: v.kind, What: "subset of a module: " + v.what, Renames: rn, Length: ln, Gofmt: true, Pkg: "shop"}, v.files, nil)
		}
	}

	// --- I/O failure: derived.gen.go is a non-empty directory (os.Create / os.Remove fail): a message, nothing touched
	for _, v := range []struct{ what, src string }{
		{"derived.gen.go is a directory, content to write", good},
		{"derived.gen.go is a directory, nothing to write", "package PKG\n\nfunc X() int { return 1 }\n"},
		{"derived.gen.go is a directory, a call to rename", good + "\nfunc Dup(a, b *S) bool { return deriveEqualAgain(a, b) }\n"},
	} {
		files := map[string]string{"u.go": v.src, "derived.gen.go/keep.txt": "x\n"}
		modes := bystanders(files)
		add(caseT{Kind: "generr", What: v.what, Gofmt: true}, files, modes)
	}

	// --- a directory that also holds an external test package
	{
		xNo := "package PKG_test\n\nimport \"testing\"\n\nfunc TestX(t *testing.T) {}\n"
		xCalls := "package PKG_test\n\nimport \"testing\"\n\nfunc TestX(t *testing.T) {\n\tif !deriveEqual([]int{1}, []int{1}) {\n\t\tt.Fatal()\n\t}\n}\n"
		in := "package PKG\n\nimport \"testing\"\n\nfunc TestIn(t *testing.T) {\n\tif deriveCompare([]string{\"a\"}, []string{\"b\"}) >= 0 {\n\t\tt.Fatal()\n\t}\n}\n"
		for _, v := range []struct {
			what  string
			files map[string]string
		}{
			{"external test package without derive calls", map[string]string{"u.go": good, "x_test.go": xNo}},
			{"external test package with derive calls", map[string]string{"u.go": good, "x_test.go": xCalls}},
			{"external and in-package test files", map[string]string{"u.go": good, "in_test.go": in, "x_test.go": xNo}},
			{"external test package with two conflicting derive calls of one name", map[string]string{"u.go": good,
				"x_test.go": "package PKG_test\n\nimport (\n\t\"testing\"\n\n\tp \"fsx/PKG\"\n)\n\n// TestX must stay as it is written.\nfunc TestX(t *testing.T) {\n\tif !deriveEqual(&p.S{}, &p.S{}) || !deriveEqual(\"x\", \"y\") { // two argument type lists, one name\n\t\tt.Fatal()\n\t}\n}\n"}},
			{"external test package with a duplicate", map[string]string{"u.go": good,
				"x_test.go": "package PKG_test\n\nimport \"testing\"\n\nfunc TestX(t *testing.T) {\n\tif !deriveEqual([]int{1}, []int{1}) || !deriveEqualAgain([]int{1}, []int{1}) {\n\t\tt.Fatal()\n\t}\n}\n"}},
		} {
			modes := bystanders(v.files)
			add(caseT{Kind: "success", What: v.what, Gofmt: true}, v.files, modes)
		}
	}

	{
		// both kinds in one package
		src := "package PKG\n" + types2 +
			"\nfunc Eq1(a, b *S) bool { return deriveEqual(a, b) }\n\nfunc Eq2(a, b *T) bool { return deriveEqual(a, b) } // conflict\n\nfunc Eq3(a, b *S) bool { return deriveEqualOtherName(a, b) } // duplicate\n"
		files := map[string]string{"u.go": src}
		modes := bystanders(files)
		add(caseT{Kind: "rename", What: "conflict and duplicate in one file (needs both flags)", Renames: "both", Length: "mixed", Gofmt: true}, files, modes)
		files = map[string]string{"u.go": uglify(r, src)}
		modes = bystanders(files)
		add(caseT{Kind: "rename", What: "conflict and duplicate in one unformatted file (needs both flags)", Renames: "both", Length: "mixed", Gofmt: false}, files, modes)
	}
	b, _ := json.MarshalIndent(cases, "", " ")
	must(os.WriteFile(filepath.Join(*out, "cases.json"), b, 0o644))
	st := map[string]int{"cases": len(cases)}
	for _, c := range cases {
		st["kind_"+c.Kind]++
		if c.Kind == "rename" {
			st["length_"+c.Length]++
			if c.Gofmt {
				st["rename_gofmt"]++
			} else {
				st["rename_unformatted"]++
			}
		}
	}
	b, _ = json.MarshalIndent(st, "", " ")
	must(os.WriteFile(filepath.Join(*out, "stats.json"), b, 0o644))
}

func main() {
	flag.Parse()
	switch {
	case *gen:
		if *out == "" {
			must(fmt.Errorf("-out required"))
		}
		genCorpus()
	case *expect:
		runExpect()
	default:
		// compatible with the common corpus-generator flags: -out alone generates
		if *out != "" {
			genCorpus()
			return
		}
		must(fmt.Errorf("use -gen or -expect"))
	}
}
