// reqobserve is the Go side of the helper-request tie of C01 (Lean: GoderiveModel/G/Requests).
//
// Mode 1, `reqobserve -gen -out DIR -seed N -harness PATH -plugins equal,compare,hash,deepcopy -n 150`:
// writes a module `corpus` with the declaration packages p and ext of the type corpus (gen.Lib) and
// ISOLATED packages iso/i<k>, each holding exactly ONE derive call: a seeded sample of n corpus types
// crossed with the plugins that support the type. The functions goderive generates for such a package
// are exactly the call and the helpers it needs transitively. Also written: prelude.txt (decl lines for
// the Lean driver), cases.json (per package: plugin, wire type, Go type), pkgs.txt.
//
// Mode 2, `reqobserve -observe -root DIR pkgdir…`: parses and type-checks each package (go/parser +
// go/types, imports from source) and prints one JSON line per package: the generated functions of
// derived.gen.go (plugin by name prefix, parameter types in the canonical spelling shared with the Lean
// driver op `reqs`), for each of them the generated functions its body calls with the types OF THE
// ARGUMENTS at the call site (that is the type list the plugin asked `GetFuncName` for), whether the
// callee's parameter types are identical to them (if not, typesMap's assignability fallback served the
// request), the calls made by the user's files (the roots), type errors, and duplicates (two generated
// functions of one plugin over identical parameter lists).
//
// Canonical spelling of a type (no spaces): bool i8 i16 i32 i64 u8 u16 u32 u64 f32 f64 c64 c128 string
// (int = i64, uint = uintptr = u64: one basic kind each in the Lean universe), n<i> = declaration number
// i of gen.Lib(), *T, []T, [N]T, map[K]V, struct{T;T} (blank fields dropped, field names positional),
// local:<Name> for a named type declared in the observed package itself.
package main

import (
	"encoding/json"
	"flag"
	"fmt"
	"go/ast"
	"go/importer"
	"go/parser"
	"go/token"
	"go/types"
	"math/rand"
	"os"
	"path/filepath"
	"regexp"
	"sort"
	"strings"

	"verifharness/gen"
	"verifharness/ty"
)

var (
	genMode  = flag.Bool("gen", false, "write the isolated-call module")
	obsMode  = flag.Bool("observe", false, "observe generated packages")
	out      = flag.String("out", "", "output directory (-gen)")
	root     = flag.String("root", ".", "module directory (-observe)")
	seed     = flag.Int64("seed", 1, "PRNG seed")
	harness  = flag.String("harness", "/verif/harness", "path of the verifharness module")
	plugins  = flag.String("plugins", "equal,compare,hash,deepcopy", "comma separated plugin list")
	nTypes   = flag.Int("n", 150, "number of sampled corpus types")
	thorough = flag.Bool("thorough", false, "thorough tier: every corpus type")
)

func must(err error) {
	if err != nil {
		fmt.Fprintln(os.Stderr, "reqobserve:", err)
		os.Exit(2)
	}
}

func write(path, s string) {
	must(os.MkdirAll(filepath.Dir(path), 0o755))
	must(os.WriteFile(path, []byte(s), 0o644))
}

// ---------------------------------------------------------------- generation

type isoCase struct {
	Pkg    string `json:"pkg"`
	Plugin string `json:"plugin"` // driver plugin name: equal, equalc, compare, comparec, hash, deepcopy, clone
	Wire   string `json:"wire"`
	GoType string `json:"gotype"`
	Src    string `json:"src"`
}

func preludeOf(env *ty.Env) string {
	var sb strings.Builder
	for _, d := range env.Decls {
		// as in gencorpus: every declaration is external to the package holding the derive call
		flags := "e"
		if d.Priv {
			flags += "p"
		}
		if d.Under.K == ty.Struct {
			flags += "m"
			for _, f := range d.Under.Fields {
				if !token.IsExported(f.Name) {
					flags += "1"
				} else {
					flags += "0"
				}
			}
		}
		if d.Methods != "" {
			flags += "." + d.Methods
		}
		fmt.Fprintf(&sb, "decl %s %s\n", flags, d.Under.Wire())
	}
	return sb.String()
}

func runGen() {
	if *out == "" {
		must(fmt.Errorf("-out required"))
	}
	rng := rand.New(rand.NewSource(*seed))
	n2, extra := 40, 60
	if *thorough {
		n2, extra = 0, 200
	}
	c := gen.NewCorpus(rng, *thorough, n2, extra)
	env := c.Env
	want := strings.Split(*plugins, ",")

	var ext, p strings.Builder
	ext.WriteString("// Package ext holds the imported declarations of the corpus.\npackage ext\n\n")
	p.WriteString("package p\n\nimport \"corpus/ext\"\n\nvar _ ext.XN\n\n")
	for _, d := range env.Decls {
		if d.Pkg == "ext" {
			fmt.Fprintf(&ext, "type %s %s\n", d.Name, d.Under.Go(env, "ext"))
			if d.Methods != "" {
				ext.WriteString("\n" + gen.MethodSrc(d))
			}
		} else {
			if d.Src != "" {
				p.WriteString(d.Src + "\n")
			} else {
				fmt.Fprintf(&p, "type %s %s\n", d.Name, d.Under.Go(env, ""))
			}
			if d.Methods != "" {
				p.WriteString("\n" + gen.MethodSrc(d))
			}
		}
	}
	write(filepath.Join(*out, "ext", "ext.go"), ext.String())
	write(filepath.Join(*out, "p", "p.go"), p.String())
	write(filepath.Join(*out, "go.mod"), fmt.Sprintf("module corpus\n\ngo 1.24\n\nrequire verifharness v0.0.0\n\nreplace verifharness => %s\n", *harness))
	write(filepath.Join(*out, "prelude.txt"), preludeOf(env))

	// the sample: compound types first (they are the ones with helpers), a few leaves
	idx := rng.Perm(len(c.Types))
	if !*thorough && len(idx) > *nTypes {
		idx = idx[:*nTypes]
	}
	sort.Ints(idx)
	supported := map[string]func(*ty.Env, *ty.Ty) bool{
		"equal": gen.SupportedEqual, "compare": gen.SupportedCompare, "hash": gen.SupportedHash,
		"deepcopy": gen.SupportedDeepCopy, "clone": gen.SupportedClone,
	}
	calls := map[string]string{
		"equal":    "func Use(a, b X) bool { return deriveEqual(a, b) }",
		"equalc":   "func Use(a, b X) bool { return deriveEqual(a)(b) }",
		"compare":  "func Use(a, b X) int { return deriveCompare(a, b) }",
		"comparec": "func Use(a, b X) int { return deriveCompare(a)(b) }",
		"hash":     "func Use(a X) uint64 { return deriveHash(a) }",
		"deepcopy": "func Use(a, b X) { deriveDeepCopy(a, b) }",
		"clone":    "func Use(a X) X { return deriveClone(a) }",
	}
	var cases []isoCase
	var pkgs []string
	for _, i := range idx {
		t := c.Types[i]
		gt := t.Go(env, "main")
		for _, pl := range want {
			sup, ok := supported[pl]
			if !ok || !sup(env, t) {
				continue
			}
			name := pl
			if (pl == "equal" || pl == "compare") && rng.Intn(8) == 0 {
				name = pl + "c" // the curried one-argument form
			}
			k := len(cases)
			pkg := fmt.Sprintf("iso/i%d", k)
			src := fmt.Sprintf("package i%d\n\nimport (\n\t\"corpus/ext\"\n\t\"corpus/p\"\n)\n\nvar _ ext.XN\nvar _ p.NI\n\n%s\n",
				k, strings.ReplaceAll(calls[name], "X", gt))
			write(filepath.Join(*out, pkg, "use.go"), src)
			cases = append(cases, isoCase{Pkg: pkg, Plugin: name, Wire: t.Wire(), GoType: gt, Src: src})
			pkgs = append(pkgs, pkg)
		}
	}
	b, err := json.MarshalIndent(cases, "", " ")
	must(err)
	write(filepath.Join(*out, "cases.json"), string(b))
	write(filepath.Join(*out, "pkgs.txt"), strings.Join(pkgs, " ")+"\n")
}

// ---------------------------------------------------------------- observation

var prefixes = []struct{ pfx, plugin string }{
	{"deriveEqual", "equal"}, {"deriveCompare", "compare"}, {"deriveHash", "hash"},
	{"deriveDeepCopy", "deepcopy"}, {"deriveClone", "clone"}, {"deriveSort", "sort"}, {"deriveKeys", "keys"},
}

func pluginOf(name string) string {
	best, bl := "", 0
	for _, p := range prefixes {
		if strings.HasPrefix(name, p.pfx) && len(p.pfx) > bl {
			best, bl = p.plugin, len(p.pfx)
		}
	}
	return best
}

type libIndex map[string]int // "p.Name" / "ext.Name" -> declaration number

func newLibIndex() libIndex {
	li := libIndex{}
	for i, d := range gen.LibLocal().Decls {
		pk := d.Pkg
		if pk == "" {
			pk = "p"
		}
		li[pk+"."+d.Name] = i
		// an alias of a generic instance (`type OptP = Opt[*int]`): go/types hands out the instance
		if m := aliasOfInstance.FindStringSubmatch(d.Src); m != nil {
			li[pk+"."+m[1]] = i
		}
	}
	return li
}

var aliasOfInstance = regexp.MustCompile(`(?m)^type \w+ = (\w+\[.*\])$`)

var basicName = map[types.BasicKind]string{
	types.Bool: "bool", types.Int: "i64", types.Int8: "i8", types.Int16: "i16", types.Int32: "i32", types.Int64: "i64",
	types.Uint: "u64", types.Uint8: "u8", types.Uint16: "u16", types.Uint32: "u32", types.Uint64: "u64", types.Uintptr: "u64",
	types.Float32: "f32", types.Float64: "f64", types.Complex64: "c64", types.Complex128: "c128", types.String: "string",
}

func (li libIndex) canon(t types.Type) string {
	switch x := t.(type) {
	case *types.Basic:
		if s, ok := basicName[x.Kind()]; ok {
			return s
		}
		return "basic:" + x.Name()
	case *types.Alias:
		return li.canon(types.Unalias(x))
	case *types.Named:
		o := x.Obj()
		if o.Pkg() != nil {
			// corpus/p, corpus/ext, and corpus/q0 for the types the derive package declares itself
			if pk := strings.TrimPrefix(o.Pkg().Path(), "corpus/"); pk != o.Pkg().Path() {
				name := o.Name()
				if x.TypeArgs().Len() > 0 {
					// the instance as it is written inside its own package
					name = types.TypeString(x, func(*types.Package) string { return "" })
				}
				if i, ok := li[pk+"."+name]; ok {
					return fmt.Sprintf("n%d", i)
				}
			}
		}
		return "local:" + o.Name()
	case *types.Pointer:
		return "*" + li.canon(x.Elem())
	case *types.Slice:
		return "[]" + li.canon(x.Elem())
	case *types.Array:
		return fmt.Sprintf("[%d]%s", x.Len(), li.canon(x.Elem()))
	case *types.Map:
		return "map[" + li.canon(x.Key()) + "]" + li.canon(x.Elem())
	case *types.Struct:
		var fs []string
		for i := 0; i < x.NumFields(); i++ {
			if x.Field(i).Name() == "_" {
				continue
			}
			fs = append(fs, li.canon(x.Field(i).Type()))
		}
		return "struct{" + strings.Join(fs, ";") + "}"
	case *types.Chan:
		return "chan(" + li.canon(x.Elem()) + ")"
	case *types.Signature:
		return "func"
	case *types.Interface:
		return "iface"
	}
	return "other:" + t.String()
}

// wire prints a type in the S-expression syntax of the Lean driver; ok=false if the type is outside the
// corpus universe (a type declared in the observed package, a channel, …)
func (li libIndex) wire(t types.Type) (string, bool) {
	switch x := t.(type) {
	case *types.Basic:
		s, ok := basicName[x.Kind()]
		return s, ok
	case *types.Alias:
		return li.wire(types.Unalias(x))
	case *types.Named:
		c := li.canon(x)
		if strings.HasPrefix(c, "n") {
			return "(n " + c[1:] + ")", true
		}
		return "", false
	case *types.Pointer:
		e, ok := li.wire(x.Elem())
		return "(p " + e + ")", ok
	case *types.Slice:
		e, ok := li.wire(x.Elem())
		return "(sl " + e + ")", ok
	case *types.Array:
		e, ok := li.wire(x.Elem())
		return fmt.Sprintf("(ar %d %s)", x.Len(), e), ok
	case *types.Map:
		k, ok1 := li.wire(x.Key())
		e, ok2 := li.wire(x.Elem())
		return "(m " + k + " " + e + ")", ok1 && ok2
	case *types.Struct:
		out, ok := "(st", true
		for i := 0; i < x.NumFields(); i++ {
			if x.Field(i).Name() == "_" {
				continue
			}
			f, okf := li.wire(x.Field(i).Type())
			out += " " + f
			ok = ok && okf
		}
		return out + ")", ok
	}
	return "", false
}

func (li libIndex) wireOf(ts []types.Type) string {
	if len(ts) == 0 {
		return ""
	}
	w, ok := li.wire(types.Default(ts[0]))
	if !ok {
		return ""
	}
	return w
}

type callObs struct {
	Callee   string `json:"callee"`   // name of the generated function
	Sig      string `json:"sig"`      // plugin(argument types at the call site)
	Resolved string `json:"resolved"` // plugin(parameter types of the callee)
	Wire     string `json:"wire"`     // first argument type in the driver's wire syntax ("" if it mentions a local type)
	Exact    bool   `json:"exact"`    // argument types identical to the callee's parameter types
}

type funcObs struct {
	Name   string    `json:"name"`
	Plugin string    `json:"plugin"`
	Sig    string    `json:"sig"`  // plugin(parameter types)
	Wire   string    `json:"wire"` // first parameter type in the driver's wire syntax ("" if it mentions a local type)
	Arity  int       `json:"arity"`
	Calls  []callObs `json:"calls"`
	Dup    string    `json:"dup,omitempty"` // an earlier generated function of the same plugin with identical parameters
}

type pkgObs struct {
	Pkg    string    `json:"pkg"`
	Parse  []string  `json:"parse"`
	Types  []string  `json:"types"`
	NoFile bool      `json:"nofile"` // no derived.gen.go
	Funcs  []funcObs `json:"funcs"`
	Roots  []callObs `json:"roots"` // calls of generated functions from the user's files
}

// fromDir resolves imports as seen from the module root, once per import path (every observed package
// belongs to the same module, and the source importer would ask `go list` again for each of them)
type fromDir struct {
	i     types.ImporterFrom
	dir   string
	cache map[string]*types.Package
}

func (f fromDir) Import(p string) (*types.Package, error) {
	if pkg, ok := f.cache[p]; ok {
		return pkg, nil
	}
	pkg, err := f.i.ImportFrom(p, f.dir, 0)
	if err == nil {
		f.cache[p] = pkg
	}
	return pkg, err
}

func sigOf(li libIndex, plugin string, ts []types.Type) string {
	ss := make([]string, len(ts))
	for i, t := range ts {
		ss[i] = li.canon(types.Default(t))
	}
	return plugin + "(" + strings.Join(ss, ",") + ")"
}

func paramTypes(f *types.Func) []types.Type {
	sig := f.Type().(*types.Signature)
	var ts []types.Type
	for i := 0; i < sig.Params().Len(); i++ {
		ts = append(ts, sig.Params().At(i).Type())
	}
	return ts
}

func runObserve(dirs []string) {
	must(os.Chdir(*root))
	os.Setenv("GOFLAGS", "-mod=mod")
	os.Setenv("GOPROXY", "off")
	li := newLibIndex()
	fset := token.NewFileSet()
	imp := importer.ForCompiler(fset, "source", nil).(types.ImporterFrom)
	enc := json.NewEncoder(os.Stdout)
	abs, _ := filepath.Abs(".")
	shared := fromDir{imp, abs, map[string]*types.Package{}}
	for _, d := range dirs {
		o := pkgObs{Pkg: d, Parse: []string{}, Types: []string{}, Funcs: []funcObs{}, Roots: []callObs{}}
		ents, err := os.ReadDir(d)
		if err != nil {
			o.Parse = append(o.Parse, err.Error())
			enc.Encode(o)
			continue
		}
		var files []*ast.File
		genFile := map[*ast.File]bool{}
		o.NoFile = true
		for _, e := range ents {
			n := e.Name()
			if e.IsDir() || !strings.HasSuffix(n, ".go") || strings.HasSuffix(n, "_test.go") {
				continue
			}
			f, err := parser.ParseFile(fset, filepath.Join(d, n), nil, parser.AllErrors)
			if err != nil {
				o.Parse = append(o.Parse, n+": "+firstLine(err.Error()))
			}
			if f != nil {
				files = append(files, f)
				if n == "derived.gen.go" {
					genFile[f] = true
					o.NoFile = false
				}
			}
		}
		info := &types.Info{Types: map[ast.Expr]types.TypeAndValue{}, Uses: map[*ast.Ident]types.Object{}, Defs: map[*ast.Ident]types.Object{}}
		conf := types.Config{
			Importer: shared,
			Error: func(err error) {
				msg := err.Error()
				if te, ok := err.(types.Error); ok {
					msg = filepath.Base(te.Fset.Position(te.Pos).Filename) + ": " + te.Msg
				}
				if len(o.Types) < 20 {
					o.Types = append(o.Types, msg)
				}
			},
		}
		if len(files) > 0 {
			conf.Check("corpus/"+d, fset, files, info)
		}
		// the generated functions
		generated := map[types.Object]*types.Func{}
		for f := range genFile {
			for _, dcl := range f.Decls {
				if fd, ok := dcl.(*ast.FuncDecl); ok && fd.Recv == nil {
					if fn, ok := info.Defs[fd.Name].(*types.Func); ok {
						generated[fn] = fn
					}
				}
			}
		}
		callsIn := func(n ast.Node) []callObs {
			var out []callObs
			ast.Inspect(n, func(x ast.Node) bool {
				ce, ok := x.(*ast.CallExpr)
				if !ok {
					return true
				}
				id, ok := ce.Fun.(*ast.Ident)
				if !ok {
					return true
				}
				fn, ok := generated[info.Uses[id]]
				if !ok {
					return true
				}
				pl := pluginOf(fn.Name())
				var ats []types.Type
				for _, a := range ce.Args {
					if tv, ok := info.Types[a]; ok && tv.Type != nil {
						ats = append(ats, tv.Type)
					} else {
						ats = append(ats, types.Typ[types.Invalid])
					}
				}
				if pl == "deepcopy" && len(ats) == 2 {
					// deriveDeepCopy(dst, src): the table entry is ONE type, the one the plugin asked for; src has it,
					// dst can be a `new(elem)` of merely assignable type (clone of a named pointer type)
					ats[0] = ats[1]
				}
				pts := paramTypes(fn)
				exact := len(pts) == len(ats)
				if exact {
					for i := range pts {
						if !types.Identical(types.Default(ats[i]), pts[i]) {
							exact = false
						}
					}
				}
				out = append(out, callObs{Callee: fn.Name(), Sig: sigOf(li, pl, ats), Resolved: sigOf(li, pl, pts), Wire: li.wireOf(ats), Exact: exact})
				return true
			})
			return out
		}
		type gf struct {
			fn  *types.Func
			pl  string
			pts []types.Type
		}
		var seen []gf
		for _, f := range files {
			if !genFile[f] {
				o.Roots = append(o.Roots, callsIn(f)...)
				continue
			}
			for _, dcl := range f.Decls {
				fd, ok := dcl.(*ast.FuncDecl)
				if !ok || fd.Recv != nil {
					continue
				}
				fn, ok := info.Defs[fd.Name].(*types.Func)
				if !ok {
					continue
				}
				pl := pluginOf(fn.Name())
				pts := paramTypes(fn)
				fo := funcObs{Name: fn.Name(), Plugin: pl, Sig: sigOf(li, pl, pts), Wire: li.wireOf(pts), Arity: len(pts), Calls: []callObs{}}
				if fd.Body != nil {
					fo.Calls = append(fo.Calls, callsIn(fd.Body)...)
				}
				for _, s := range seen {
					if s.pl == pl && len(s.pts) == len(pts) {
						same := true
						for i := range pts {
							if !types.Identical(pts[i], s.pts[i]) {
								same = false
							}
						}
						if same {
							fo.Dup = s.fn.Name()
						}
					}
				}
				seen = append(seen, gf{fn, pl, pts})
				o.Funcs = append(o.Funcs, fo)
			}
		}
		enc.Encode(o)
	}
}

func firstLine(s string) string {
	if i := strings.Index(s, "\n"); i >= 0 {
		return s[:i]
	}
	return s
}

func main() {
	flag.Parse()
	switch {
	case *genMode:
		runGen()
	case *obsMode:
		runObserve(flag.Args())
	default:
		must(fmt.Errorf("one of -gen, -observe required"))
	}
}
