package gen

import (
	"strings"

	"verifharness/ty"
)

// SupportedEqual: the type grammar the equal plugin documents as supported (as in C01/C02):
// no chan/func/interface, no pointer to an unnamed struct, no unnamed non-comparable struct as a
// component.
func SupportedEqual(env *ty.Env, t *ty.Ty) bool {
	return supTop(env, t, map[int]bool{})
}

// SupportedEqualField: t may be used as a struct field / element (plugin/equal `field`).
func SupportedEqualField(env *ty.Env, t *ty.Ty) bool {
	return supField(env, t, map[int]bool{})
}

func supTop(env *ty.Env, t *ty.Ty, seen map[int]bool) bool {
	if t.K == ty.Named {
		if seen[t.N] {
			return true
		}
		seen[t.N] = true
	}
	u := env.Under(t)
	switch u.K {
	case ty.Basic:
		return true
	case ty.Ptr:
		r := u.Elem
		if env.Under(r).K == ty.Struct && r.K != ty.Named {
			return false
		}
		return supTop(env, r, seen)
	case ty.Struct:
		if t.K != ty.Named && canEqualM(env, t) {
			return true
		}
		for _, f := range u.Fields {
			if !supField(env, f.T, seen) {
				return false
			}
		}
		return true
	case ty.Slice, ty.Array:
		return supField(env, u.Elem, seen)
	case ty.Map:
		return env.CanEqual(u.Key) && supField(env, u.Elem, seen)
	}
	return false
}

// canEqualM mirrors plugin/equal's canEqual: comparable with ==, and no type with its own Equal method inside
// (such a type is compared with the method, so a struct or array holding it is compared part by part).
func canEqualM(env *ty.Env, t *ty.Ty) bool {
	if t.K == ty.Named && strings.Contains(env.Decls[t.N].Methods, "E") {
		return false
	}
	u := env.Under(t)
	switch u.K {
	case ty.Basic:
		return true
	case ty.Struct:
		for _, f := range u.Fields {
			if !canEqualM(env, f.T) {
				return false
			}
		}
		return true
	case ty.Array:
		return canEqualM(env, u.Elem)
	}
	return false
}

func supField(env *ty.Env, t *ty.Ty, seen map[int]bool) bool {
	if canEqualM(env, t) {
		return true
	}
	u := env.Under(t)
	switch u.K {
	case ty.Ptr:
		if u.Elem.K == ty.Named {
			return supTop(env, ty.P(u.Elem), seen)
		}
		return supField(env, u.Elem, seen)
	case ty.Struct:
		if t.K != ty.Named {
			return false
		}
		return supTop(env, t, seen)
	case ty.Slice, ty.Array, ty.Map:
		return supTop(env, u, seen)
	}
	return false
}

// Identical mirrors types.Identical on the corpus grammar.
func Identical(env *ty.Env, a, b *ty.Ty) bool { return a.Wire() == b.Wire() }

// Assignable mirrors types.AssignableTo on the corpus grammar: identical, or identical underlying
// types with at least one side not a named (or predeclared) type.
func Assignable(env *ty.Env, a, b *ty.Ty) bool {
	if Identical(env, a, b) {
		return true
	}
	hasName := func(t *ty.Ty) bool { return t.K == ty.Named || t.K == ty.Basic }
	if hasName(a) && hasName(b) {
		return false
	}
	return Identical(env, env.Under(a), env.Under(b))
}

// occurrence contexts for Walk
const (
	CtxTop    = iota
	CtxComp   // struct field, slice/array element, map value
	CtxKey    // map key
	CtxTarget // pointer target
)

// Walk visits every type occurrence reachable from t (through declarations, each once).
func Walk(env *ty.Env, t *ty.Ty, ctx int, seen map[int]bool, f func(t *ty.Ty, ctx int)) {
	f(t, ctx)
	switch t.K {
	case ty.Named:
		if seen[t.N] {
			return
		}
		seen[t.N] = true
		u := env.Decls[t.N].Under
		// the declaration's own underlying type is not a separate occurrence; visit its parts
		walkParts(env, u, seen, f)
	default:
		walkParts(env, t, seen, f)
	}
}

func walkParts(env *ty.Env, u *ty.Ty, seen map[int]bool, f func(t *ty.Ty, ctx int)) {
	switch u.K {
	case ty.Ptr:
		Walk(env, u.Elem, CtxTarget, seen, f)
	case ty.Slice, ty.Array, ty.Chan:
		Walk(env, u.Elem, CtxComp, seen, f)
	case ty.Map:
		Walk(env, u.Key, CtxKey, seen, f)
		Walk(env, u.Elem, CtxComp, seen, f)
	case ty.Struct:
		for _, fl := range u.Fields {
			Walk(env, fl.T, CtxComp, seen, f)
		}
	}
}

func isUnnamedStruct(t *ty.Ty) bool { return t.K == ty.Struct }

func basicOK(t *ty.Ty) bool { return t.K != ty.Chan && t.K != ty.Func && t.K != ty.Iface }

// SupportedCompare: no unnamed struct anywhere (plugin/compare has no case for it), value keys.
func SupportedCompare(env *ty.Env, t *ty.Ty) bool {
	ok := true
	Walk(env, t, CtxTop, map[int]bool{}, func(x *ty.Ty, ctx int) {
		if !basicOK(x) || isUnnamedStruct(x) {
			ok = false
		}
		if ctx == CtxKey && !env.CanEqual(x) {
			ok = false
		}
	})
	return ok
}

// SupportedHash: unnamed structs are fine except as map keys (keys are sorted with derived Compare).
func SupportedHash(env *ty.Env, t *ty.Ty) bool {
	ok := true
	Walk(env, t, CtxTop, map[int]bool{}, func(x *ty.Ty, ctx int) {
		if !basicOK(x) {
			ok = false
		}
		if ctx == CtxKey && (!env.CanEqual(x) || !SupportedCompare(env, x)) {
			ok = false
		}
	})
	return ok
}

// SupportedDeepCopy: what deriveDeepCopy(dst, src T) accepts and compiles for (C05's grammar):
// T is a pointer, slice or map; map keys are pointer-free ("value keys"); no pointer to an unnamed
// struct at top level, no unnamed non-copyable struct component (goderive refuses those with a message).
// Maps whose values are non-copyable arrays used to be left out because the emitted code did not compile
// (finding F44, repaired in /repo): they are part of the corpus now.
func SupportedDeepCopy(env *ty.Env, t *ty.Ty) bool {
	u := env.Under(t)
	if u.K != ty.Ptr && u.K != ty.Slice && u.K != ty.Map {
		return false
	}
	if u.K == ty.Ptr && u.Elem.K == ty.Struct {
		return false
	}
	return copyPartsOK(env, t)
}

// zeroSized: values of the type occupy no memory (their slices have no observable identity).
func zeroSized(env *ty.Env, t *ty.Ty) bool {
	u := env.Under(t)
	switch u.K {
	case ty.Struct:
		for _, f := range u.Fields {
			if !zeroSized(env, f.T) {
				return false
			}
		}
		return true
	case ty.Array:
		return u.N == 0 || zeroSized(env, u.Elem)
	}
	return false
}

func copyPartsOK(env *ty.Env, t *ty.Ty) bool {
	ok := true
	Walk(env, t, CtxTop, map[int]bool{}, func(x *ty.Ty, ctx int) {
		if ux := env.Under(x); ux.K == ty.Slice && zeroSized(env, ux.Elem) {
			ok = false // backing arrays of zero-size elements cannot be told apart by the observer
		}
		if !basicOK(x) {
			ok = false
		}
		if isUnnamedStruct(x) && !env.CanEqual(x) {
			ok = false
		}
		if ctx == CtxKey && !env.CanEqual(x) {
			ok = false
		}
	})
	return ok
}

// SupportedClone: deriveClone(src T).
func SupportedClone(env *ty.Env, t *ty.Ty) bool {
	u := env.Under(t)
	switch u.K {
	case ty.Ptr, ty.Slice, ty.Map:
		return SupportedDeepCopy(env, t)
	}
	if u.K == ty.Struct && t.K != ty.Named {
		return false // clone goes through deepcopy of a pointer to the unnamed struct: unsupported
	}
	return copyPartsOK(env, t)
}

// HasMethods: a declaration with user methods is reachable from t. The clauses that relate two derived
// functions to each other (Compare == 0 iff Equal, Equal implies same Hash) presuppose that the user's
// own methods are consistent with each other, so they are checked on method-free types only.
func HasMethods(env *ty.Env, t *ty.Ty) bool {
	has := false
	Walk(env, t, CtxTop, map[int]bool{}, func(x *ty.Ty, ctx int) {
		if x.K == ty.Named && env.Decls[x.N].Methods != "" {
			has = true
		}
	})
	return has
}

// MethodsAgree reports whether every method-declaring type reachable from t that declares `need`
// (a method letter: E, C or H) also declares `then`: only then does the user's own code promise the
// consistency between the two derived functions that the corpus checks.
func MethodsAgree(env *ty.Env, t *ty.Ty, need, then string) bool {
	ok := true
	Walk(env, t, CtxTop, map[int]bool{}, func(x *ty.Ty, ctx int) {
		if x.K == ty.Named {
			m := env.Decls[x.N].Methods
			if strings.Contains(m, need) && !strings.Contains(m, then) {
				ok = false
			}
		}
	})
	return ok
}
