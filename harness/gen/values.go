// Package gen holds the corpus generators: types (typegen.go) and boundary-biased value pools with
// single-position mutations (this file). Every random choice comes from the one *rand.Rand.
package gen

import (
	"fmt"
	"math"
	"math/rand"
	"strconv"

	"verifharness/ty"
)

type VGen struct {
	Env  *ty.Env
	Rng  *rand.Rand
	Cap  int // pool size cap per type
	next int // fresh address counter
	memo map[*ty.Ty][]*ty.Val
	// NoNegZero etc. can be switched by callers for property-specific pools
}

func NewVGen(env *ty.Env, rng *rand.Rand, cap int) *VGen {
	return &VGen{Env: env, Rng: rng, Cap: cap, next: 100, memo: map[*ty.Ty][]*ty.Val{}}
}

func (g *VGen) Fresh() int { g.next++; return g.next }

func iv(n int64) *ty.Val    { return &ty.Val{K: ty.VInt, Int: strconv.FormatInt(n, 10)} }
func uv(n uint64) *ty.Val   { return &ty.Val{K: ty.VInt, Int: strconv.FormatUint(n, 10)} }
func sv(s string) *ty.Val   { return &ty.Val{K: ty.VStr, Str: []byte(s)} }
func f64(f float64) *ty.Val { return &ty.Val{K: ty.VFlt, W: 64, Bits: math.Float64bits(f)} }
func f32(f float32) *ty.Val {
	return &ty.Val{K: ty.VFlt, W: 32, Bits: uint64(math.Float32bits(f))}
}

func basicPool(b string) []*ty.Val {
	switch b {
	case "bool":
		return []*ty.Val{{K: ty.VBool, Bool: false}, {K: ty.VBool, Bool: true}}
	case "int", "int64":
		// two neighbours beyond 2^53: a comparison or a hash that goes through float64 cannot tell them apart
		return []*ty.Val{iv(0), iv(1), iv(-1), iv(math.MinInt64), iv(math.MaxInt64), iv(42), iv(math.MaxInt64 - 1)}
	case "int8":
		return []*ty.Val{iv(0), iv(1), iv(-1), iv(-128), iv(127)}
	case "int16":
		return []*ty.Val{iv(0), iv(1), iv(-1), iv(-32768), iv(32767)}
	case "int32", "rune":
		return []*ty.Val{iv(0), iv(1), iv(-1), iv(math.MinInt32), iv(math.MaxInt32)}
	case "uint", "uint64", "uintptr":
		return []*ty.Val{uv(0), uv(1), uv(math.MaxUint64), uv(1 << 63), uv(7)}
	case "uint8", "byte":
		return []*ty.Val{uv(0), uv(1), uv(255), uv(128)}
	case "uint16":
		return []*ty.Val{uv(0), uv(1), uv(65535)}
	case "uint32":
		return []*ty.Val{uv(0), uv(1), uv(math.MaxUint32)}
	case "float64":
		return []*ty.Val{f64(0), f64(math.Copysign(0, -1)), f64(1.5), f64(-2.25), f64(math.Inf(1)), f64(math.Inf(-1)), f64(5e-324), f64(math.MaxFloat64)}
	case "float32":
		return []*ty.Val{f32(0), f32(float32(math.Copysign(0, -1))), f32(1.5), f32(-2.25), f32(float32(math.Inf(1))), f32(float32(math.Inf(-1)))}
	case "complex128":
		z, nz := math.Float64bits(0), math.Float64bits(math.Copysign(0, -1))
		o := math.Float64bits(1.5)
		return []*ty.Val{{K: ty.VCplx, W: 64, Bits: z, Bits2: z}, {K: ty.VCplx, W: 64, Bits: nz, Bits2: z}, {K: ty.VCplx, W: 64, Bits: z, Bits2: o}, {K: ty.VCplx, W: 64, Bits: o, Bits2: z}, {K: ty.VCplx, W: 64, Bits: o, Bits2: nz}}
	case "complex64":
		z, nz := uint64(math.Float32bits(0)), uint64(math.Float32bits(float32(math.Copysign(0, -1))))
		o := uint64(math.Float32bits(1.5))
		return []*ty.Val{{K: ty.VCplx, W: 32, Bits: z, Bits2: z}, {K: ty.VCplx, W: 32, Bits: nz, Bits2: z}, {K: ty.VCplx, W: 32, Bits: z, Bits2: o}, {K: ty.VCplx, W: 32, Bits: o, Bits2: z}}
	case "string":
		// the third one is longer than any small-string fast path (word-at-a-time hashing, SSO)
		return []*ty.Val{sv(""), sv("a"), sv("0123456789abcdefghijklmnopqrstuvwxyzABCD"), sv("ab"), sv("b"), sv("\xff"), sv("é\"\n"), sv("a\x00")}
	}
	panic("no pool for basic " + b)
}

// Pool returns a boundary-biased pool of template values for t (address ids are placeholders;
// use Inst to obtain an instance with fresh addresses). The first element is the "base" value.
func (g *VGen) Pool(t *ty.Ty) []*ty.Val { return g.pool(t, 3) }

func (g *VGen) trim(vs []*ty.Val, cap int) []*ty.Val {
	if len(vs) <= cap {
		return vs
	}
	// keep the first half of the cap as boundary values, sample the rest
	keep := cap / 2
	out := append([]*ty.Val(nil), vs[:keep]...)
	rest := vs[keep:]
	perm := g.Rng.Perm(len(rest))
	for _, i := range perm[:cap-keep] {
		out = append(out, rest[i])
	}
	return out
}

func (g *VGen) pool(t *ty.Ty, depth int) []*ty.Val {
	if depth == 3 {
		if p, ok := g.memo[t]; ok {
			return p
		}
	}
	var out []*ty.Val
	u := g.Env.Under(t)
	switch u.K {
	case ty.Basic:
		out = basicPool(u.B)
	case ty.Ptr:
		out = append(out, &ty.Val{K: ty.VNil})
		if depth > 0 {
			for _, e := range g.pool(u.Elem, depth-1) {
				out = append(out, &ty.Val{K: ty.VPtr, Elems: []*ty.Val{e}})
			}
		}
	case ty.Slice:
		out = append(out, &ty.Val{K: ty.VNil}, &ty.Val{K: ty.VSlice})
		if depth > 0 {
			es := g.pool(u.Elem, depth-1)
			a := es[0]
			out = append(out, &ty.Val{K: ty.VSlice, Elems: []*ty.Val{a}})
			out = append(out, &ty.Val{K: ty.VSlice, Spare: 2, Elems: []*ty.Val{a}})
			for _, b := range es[1:] {
				out = append(out, &ty.Val{K: ty.VSlice, Elems: []*ty.Val{b}})
				out = append(out, &ty.Val{K: ty.VSlice, Elems: []*ty.Val{a, b}})
				out = append(out, &ty.Val{K: ty.VSlice, Elems: []*ty.Val{b, a}})
			}
			if len(es) > 1 {
				out = append(out, &ty.Val{K: ty.VSlice, Spare: 1, Elems: []*ty.Val{a, a, es[1]}})
			}
		}
	case ty.Array:
		es := g.pool(u.Elem, depth)
		base := make([]*ty.Val, u.N)
		for i := range base {
			base[i] = es[0]
		}
		out = append(out, &ty.Val{K: ty.VArr, Elems: base})
		for i := 0; i < u.N; i++ {
			for _, b := range es[1:] {
				el := append([]*ty.Val(nil), base...)
				el[i] = b
				out = append(out, &ty.Val{K: ty.VArr, Elems: el})
			}
		}
	case ty.Struct:
		pools := make([][]*ty.Val, len(u.Fields))
		base := make([]*ty.Val, len(u.Fields))
		for i, f := range u.Fields {
			pools[i] = g.pool(f.T, depth)
			base[i] = pools[i][0]
		}
		out = append(out, &ty.Val{K: ty.VStruct, Elems: base})
		for i := range u.Fields {
			for _, b := range pools[i][1:] {
				el := append([]*ty.Val(nil), base...)
				el[i] = b
				out = append(out, &ty.Val{K: ty.VStruct, Elems: el})
			}
		}
		// one value with every field at a non-base choice
		if len(u.Fields) > 1 {
			el := make([]*ty.Val, len(u.Fields))
			for i := range el {
				el[i] = pools[i][g.Rng.Intn(len(pools[i]))]
			}
			out = append(out, &ty.Val{K: ty.VStruct, Elems: el})
		}
	case ty.Map:
		out = append(out, &ty.Val{K: ty.VNil}, &ty.Val{K: ty.VMap})
		if depth > 0 {
			ks := g.distinctKeys(g.pool(u.Key, depth-1))
			vs := g.pool(u.Elem, depth-1)
			k1, v1 := ks[0], vs[0]
			if len(ks) > 1 && len(vs) > 2 {
				// two keys holding two different non-base values of similar shape (a copy loop that carries
				// state from one entry to the next mixes them up)
				i := 1 + g.Rng.Intn(len(vs)-2)
				out = append(out, &ty.Val{K: ty.VMap, Elems: []*ty.Val{k1, vs[i], ks[1], vs[i+1]}})
			}
			if ku := g.Env.Under(u.Key); ku != nil && ku.K == ty.Basic && ku.B == "string" && len(vs) > 1 {
				// two keys that collide under the derived string hash (31*h + c) and hold different values:
				// a walk ordered by the hashes of the keys leaves these two in map-iteration order
				out = append(out, &ty.Val{K: ty.VMap, Elems: []*ty.Val{sv("Aa"), vs[len(vs)-1], sv("BB"), v1}})
			}
			if ku := g.Env.Under(u.Key); ku != nil && ku.K == ty.Basic && len(vs) > 2 {
				// three keys whose pairwise differences wrap around into a cycle: an ordering of the keys by
				// the sign of a - b is not transitive on them and depends on the order they arrive in
				var cyc []*ty.Val
				switch ku.B {
				case "int", "int64":
					cyc = []*ty.Val{iv(math.MinInt64), iv(-1), iv(1 << 62)}
				case "uint", "uint64", "uintptr":
					cyc = []*ty.Val{uv(1 << 62), uv(1 << 63), uv(math.MaxUint64)}
				}
				if cyc != nil {
					out = append(out, &ty.Val{K: ty.VMap, Elems: []*ty.Val{cyc[0], v1, cyc[1], vs[1], cyc[2], vs[2]}})
				}
			}
			out = append(out, &ty.Val{K: ty.VMap, Elems: []*ty.Val{k1, v1}})
			if len(vs) > 1 {
				out = append(out, &ty.Val{K: ty.VMap, Elems: []*ty.Val{k1, vs[1]}})
			}
			if len(ks) > 1 {
				k2 := ks[1]
				v2 := vs[len(vs)-1]
				out = append(out, &ty.Val{K: ty.VMap, Elems: []*ty.Val{k2, v1}})
				out = append(out, &ty.Val{K: ty.VMap, Elems: []*ty.Val{k1, v1, k2, v2}})
				out = append(out, &ty.Val{K: ty.VMap, Elems: []*ty.Val{k2, v2, k1, v1}})
				out = append(out, &ty.Val{K: ty.VMap, Elems: []*ty.Val{k1, v2, k2, v1}})
				if len(ks) > 2 {
					out = append(out, &ty.Val{K: ty.VMap, Elems: []*ty.Val{ks[2], v1, k1, v2, k2, v1}})
					// equal sizes, different key sets (a walk over one map's keys that looks them up in the other
					// sees missing keys in both directions)
					out = append(out, &ty.Val{K: ty.VMap, Elems: []*ty.Val{k1, v2, ks[2], v1}})
					out = append(out, &ty.Val{K: ty.VMap, Elems: []*ty.Val{ks[2], v2, k2, v1}})
				}
			}
		}
	default:
		panic(fmt.Sprintf("no pool for kind %d", u.K))
	}
	cap := g.Cap
	if depth < 3 {
		cap = g.Cap/2 + 1
	}
	out = g.trim(out, cap)
	if depth == 3 {
		g.memo[t] = out
	}
	return out
}

// distinctKeys removes keys equal under Go == (+0/-0) keeping first occurrences.
func (g *VGen) distinctKeys(ks []*ty.Val) []*ty.Val {
	var out []*ty.Val
	for _, k := range ks {
		dup := false
		for _, o := range out {
			if GoEq(k, o) {
				dup = true
				break
			}
		}
		if !dup {
			out = append(out, k)
		}
	}
	return out
}

func fkey(w int, bits uint64) (int64, bool) {
	if w == 32 {
		f := math.Float32frombits(uint32(bits))
		if f != f {
			return 0, false
		}
		if f == 0 {
			return 0, true
		}
		return int64(int32(uint32(bits)&0x7fffffff)) * map[bool]int64{true: -1, false: 1}[uint32(bits)>>31 == 1], true
	}
	f := math.Float64frombits(bits)
	if f != f {
		return 0, false
	}
	if f == 0 {
		return 0, true
	}
	m := int64(bits & 0x7fffffffffffffff)
	if bits>>63 == 1 {
		return -m, true
	}
	return m, true
}

// GoEq is Go's == on pointer-free values (used only to keep generated map keys distinct).
func GoEq(a, b *ty.Val) bool {
	if a.K != b.K {
		return false
	}
	switch a.K {
	case ty.VBool:
		return a.Bool == b.Bool
	case ty.VInt:
		return a.Int == b.Int
	case ty.VFlt:
		x, ok1 := fkey(a.W, a.Bits)
		y, ok2 := fkey(b.W, b.Bits)
		return ok1 && ok2 && x == y
	case ty.VCplx:
		x, ok1 := fkey(a.W, a.Bits)
		y, ok2 := fkey(b.W, b.Bits)
		x2, ok3 := fkey(a.W, a.Bits2)
		y2, ok4 := fkey(b.W, b.Bits2)
		return ok1 && ok2 && ok3 && ok4 && x == y && x2 == y2
	case ty.VStr:
		return string(a.Str) == string(b.Str)
	case ty.VNil:
		return true // two nil pointer keys are one key (non-nil pointer templates become distinct objects)
	case ty.VArr, ty.VStruct:
		if len(a.Elems) != len(b.Elems) {
			return false
		}
		for i := range a.Elems {
			if !GoEq(a.Elems[i], b.Elems[i]) {
				return false
			}
		}
		return true
	}
	return false
}

// Inst clones a template with fresh address ids for every allocation.
func (g *VGen) Inst(v *ty.Val) *ty.Val {
	c := *v
	switch v.K {
	case ty.VPtr, ty.VSlice, ty.VMap:
		c.Addr = g.Fresh()
	}
	if v.Elems != nil {
		c.Elems = make([]*ty.Val, len(v.Elems))
		for i, e := range v.Elems {
			c.Elems[i] = g.Inst(e)
		}
	}
	return &c
}

// Mutations returns every single-leaf and single-nil-ness mutation of v at type t (capped).
func (g *VGen) Mutations(t *ty.Ty, v *ty.Val, cap int) []*ty.Val {
	var out []*ty.Val
	g.mutate(t, v, func(repl *ty.Val, rebuild func(*ty.Val) *ty.Val) {
		out = append(out, rebuild(repl))
	})
	if len(out) > cap {
		perm := g.Rng.Perm(len(out))
		o2 := make([]*ty.Val, cap)
		for i := 0; i < cap; i++ {
			o2[i] = out[perm[i]]
		}
		out = o2
	}
	return out
}

// mutate calls emit(replacement, rebuild) for every position; rebuild puts a replacement of the
// current node into a copy of the whole value.
func (g *VGen) mutate(t *ty.Ty, v *ty.Val, emit func(*ty.Val, func(*ty.Val) *ty.Val)) {
	id := func(x *ty.Val) *ty.Val { return x }
	g.mutAt(t, v, id, emit)
}

func (g *VGen) mutAt(t *ty.Ty, v *ty.Val, up func(*ty.Val) *ty.Val, emit func(*ty.Val, func(*ty.Val) *ty.Val)) {
	u := g.Env.Under(t)
	child := func(i int, ct *ty.Ty) {
		g.mutAt(ct, v.Elems[i], func(x *ty.Val) *ty.Val {
			c := *v
			c.Elems = append([]*ty.Val(nil), v.Elems...)
			c.Elems[i] = x
			return up(&c)
		}, emit)
	}
	switch u.K {
	case ty.Basic:
		alts := basicPool(u.B)
		n := 0
		for _, a := range alts {
			if a.Wire() != v.Wire() {
				emit(a, up)
				n++
				if n >= 2 {
					break
				}
			}
		}
	case ty.Ptr:
		if v.K == ty.VNil {
			emit(&ty.Val{K: ty.VPtr, Addr: g.Fresh(), Elems: []*ty.Val{g.Inst(g.pool(u.Elem, 1)[0])}}, up)
		} else {
			emit(&ty.Val{K: ty.VNil}, up)
			child(0, u.Elem)
		}
	case ty.Slice:
		if v.K == ty.VNil {
			emit(&ty.Val{K: ty.VSlice, Addr: g.Fresh()}, up)
		} else {
			if len(v.Elems) == 0 {
				emit(&ty.Val{K: ty.VNil}, up)
			} else {
				// drop last element (length mutation)
				c := *v
				c.Elems = v.Elems[:len(v.Elems)-1]
				emit(&c, up)
			}
			for i := range v.Elems {
				child(i, u.Elem)
			}
		}
	case ty.Array:
		for i := range v.Elems {
			child(i, u.Elem)
		}
	case ty.Struct:
		for i, f := range u.Fields {
			child(i, f.T)
		}
	case ty.Map:
		if v.K == ty.VNil {
			emit(&ty.Val{K: ty.VMap, Addr: g.Fresh()}, up)
		} else {
			if len(v.Elems) == 0 {
				emit(&ty.Val{K: ty.VNil}, up)
			} else {
				c := *v
				c.Elems = v.Elems[:len(v.Elems)-2]
				emit(&c, up)
			}
			for i := 1; i < len(v.Elems); i += 2 {
				child(i, u.Elem)
			}
		}
	}
}

// EqVariants returns values structurally equal to v that differ in identity only: rebuilt at fresh
// addresses, other spare capacity, reversed map insertion order, and signed zeros flipped.
func (g *VGen) EqVariants(v *ty.Val) []*ty.Val {
	out := []*ty.Val{g.Inst(v)}
	var rew func(v *ty.Val, mode int) (*ty.Val, bool)
	rew = func(v *ty.Val, mode int) (*ty.Val, bool) {
		c := *v
		changed := false
		switch v.K {
		case ty.VSlice:
			if mode == 0 {
				c.Spare = 9 - v.Spare
				if c.Spare < 0 {
					c.Spare = 0
				}
				changed = true
			}
		case ty.VMap:
			if mode == 1 && len(v.Elems) >= 4 {
				c.Elems = nil
				for i := len(v.Elems) - 2; i >= 0; i -= 2 {
					c.Elems = append(c.Elems, v.Elems[i], v.Elems[i+1])
				}
				changed = true
				v = &ty.Val{Elems: c.Elems}
			}
		case ty.VFlt, ty.VCplx:
			if mode == 2 {
				sign := uint64(1) << uint(v.W-1)
				if v.Bits&^sign == 0 {
					c.Bits = v.Bits ^ sign
					changed = true
				}
				if v.K == ty.VCplx && v.Bits2&^sign == 0 {
					c.Bits2 = v.Bits2 ^ sign
					changed = true
				}
			}
		}
		if v.Elems != nil {
			src := v.Elems
			c.Elems = make([]*ty.Val, len(src))
			for i, e := range src {
				// map keys stay as they are: flipping the sign of a zero key would make two keys collide
				if c.K == ty.VMap && i%2 == 0 {
					c.Elems[i] = e
					continue
				}
				ne, ch := rew(e, mode)
				c.Elems[i] = ne
				changed = changed || ch
			}
		}
		return &c, changed
	}
	for mode := 0; mode < 3; mode++ {
		if nv, ch := rew(v, mode); ch {
			out = append(out, g.Inst(nv))
		}
	}
	return out
}
