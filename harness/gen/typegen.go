package gen

import (
	"fmt"
	"math/rand"
	"strings"

	"verifharness/ty"
)

// Lib is the fixed declaration library of every corpus: named basics, (recursive, embedded,
// imported, unexported-field) structs and named containers.
func Lib() *ty.Env {
	e := &ty.Env{}
	add := func(name, pkg string, u *ty.Ty, priv bool) int {
		e.Decls = append(e.Decls, &ty.Decl{Name: name, Pkg: pkg, Under: u, Priv: priv})
		return len(e.Decls) - 1
	}
	f := ty.F
	b := ty.B
	add("NI", "", b("int"), false)                                                                                         // 0
	add("NS", "", b("string"), false)                                                                                      // 1
	add("NF", "", b("float64"), false)                                                                                     // 2
	add("NB", "", b("bool"), false)                                                                                        // 3
	add("E0", "", ty.St(), false)                                                                                          // 4
	add("S1", "", ty.St(f("A", b("int")), f("B", b("string"))), false)                                                     // 5
	add("S2", "", ty.St(f("A", ty.P(b("int"))), f("B", ty.Sl(b("int"))), f("C", ty.M(b("string"), b("int")))), false)      // 6
	add("R1", "", ty.St(f("V", b("int")), f("Next", ty.P(ty.N(7)))), false)                                                // 7
	add("MA", "", ty.St(f("V", b("string")), f("B", ty.P(ty.N(9)))), false)                                                // 8
	add("MB", "", ty.St(f("W", ty.Sl(ty.N(8))), f("A", ty.P(ty.N(8)))), false)                                             // 9
	add("Em", "", ty.St(ty.Field{Name: "S1", Embedded: true, T: ty.N(5)}, f("X", ty.Sl(b("byte")))), false)                // 10
	add("NSl", "", ty.Sl(b("int")), false)                                                                                 // 11
	add("NM", "", ty.M(b("string"), b("int")), false)                                                                      // 12
	add("NP", "", ty.P(b("int")), false)                                                                                   // 13
	add("NAr", "", ty.Ar(2, b("int")), false)                                                                              // 14
	add("SF", "", ty.St(f("F", b("float64")), f("G", b("float32")), f("C", b("complex128"))), false)                       // 15
	add("SB", "", ty.St(f("B", ty.Sl(b("byte"))), f("P", ty.P(ty.Sl(b("byte")))), f("N", ty.Sl(ty.Sl(b("byte"))))), false) // 16
	add("X1", "ext", ty.St(f("A", b("int")), f("B", ty.Sl(b("string"))), f("C", ty.P(b("int")))), false)                   // 17
	add("X2", "ext", ty.St(f("a", b("int")), f("b", ty.Sl(b("string"))), f("c", ty.P(b("int")))), true)                    // 18
	add("XN", "ext", b("int64"), false)                                                                                    // 19
	add("SP", "", ty.St(f("P", ty.P(ty.N(5))), f("Q", ty.P(ty.N(6))), f("R", ty.P(ty.P(b("int")))),
		f("S", ty.Sl(ty.P(b("int")))), f("T", ty.M(b("int"), ty.P(ty.N(5)))), f("U", ty.Ar(2, ty.Sl(b("int"))))), false) // 20
	add("X3", "ext", ty.St(f("a", b("string")), f("B", b("int8"))), true) // 21: comparable, unexported
	add("NBy", "", ty.Sl(b("byte")), false)                               // 22
	// same identifiers as declarations of p, in another package, with a different (pointer-holding) shape:
	// anything keyed by a bare type name instead of the type confuses them
	add("S1", "ext", ty.St(f("A", ty.P(b("int"))), f("B", ty.Sl(b("string")))), false)                                                   // 23
	add("E0", "ext", ty.St(f("P", ty.P(b("int")))), false)                                                                               // 24
	add("NI", "ext", ty.Sl(b("int")), false)                                                                                             // 25
	add("SS", "", ty.St(f("L", ty.N(5)), f("R", ty.N(23)), f("E", ty.N(4)), f("F", ty.N(24)), f("N", ty.N(0)), f("M", ty.N(25))), false) // 26
	add("SR", "", ty.St(f("R", ty.N(23)), f("L", ty.N(5)), f("M", ty.N(25)), f("N", ty.N(0))), false)                                    // 27
	// field names that start with an underscore (unexported, but not blank)
	add("UF", "", ty.St(f("_id", b("int")), f("_tags", ty.Sl(b("string"))), f("X", b("int")), f("_p", ty.P(b("int")))), true) // 28
	// named byte and rune types: slices of them are not []byte / []rune
	add("NU8", "", b("uint8"), false) // 29
	add("NR", "", b("int32"), false)  // 30
	// types that declare their own Equal / Compare / Hash methods (they look at the first field only, so
	// that the method's answer can be told from the structural one): UE1 with pointer receivers and
	// parameters, UE2 with value receivers and parameters
	ue1 := add("UE1", "", ty.St(f("A", b("int")), f("B", ty.Sl(b("int")))), false) // 31
	e.Decls[ue1].Methods = "Ep.Cp.Hp"
	ue2 := add("UE2", "", ty.St(f("A", b("int")), f("B", b("string"))), false) // 32
	e.Decls[ue2].Methods = "Ev.Cv"
	add("UW", "", ty.St(f("P", ty.P(ty.N(31))), f("V", ty.N(31)), f("Q", ty.P(ty.N(32))), f("W", ty.N(32)), f("L", ty.Sl(ty.N(31))), f("M", ty.M(b("string"), ty.N(32))), f("R", ty.Ar(2, ty.N(32)))), false) // 33
	// external structs with blank fields in front of and between unexported fields: generated code must
	// skip them and still reach every other field (XB is not comparable, XC is and can be a map key)
	xb := add("XB", "ext", ty.St(f("a", b("int")), f("b", ty.Sl(b("string"))), f("c", ty.P(b("int"))), f("D", b("string")), f("e", b("int"))), true) // 34
	e.Decls[xb].Under.Blanks = map[int]string{0: "[0]func()", 2: "int32", 5: "struct{}"}
	xc := add("XC", "ext", ty.St(f("a", b("string")), f("b", b("int8")), f("C", b("int8"))), true) // 35
	e.Decls[xc].Under.Blanks = map[int]string{0: "int32", 1: "bool"}
	// a non-comparable struct holding a NAMED float: -0 and +0 are Equal there and must hash alike
	add("SNF", "", ty.St(f("T", ty.N(2)), f("S", ty.Sl(b("string")))), false) // 36
	nsc := add("NSC", "", b("string"), false)                                 // 37: a named string with its own (coarse) Compare method, used as a map key
	e.Decls[nsc].Methods = "Cs"
	ud := add("UD", "", ty.St(f("A", b("int")), f("B", ty.Sl(b("int")))), false) // 38: declares its own DeepCopy
	e.Decls[ud].Methods = "Dp"
	ue3 := add("UE3", "", ty.St(f("A", b("int")), f("B", b("string"))), false) // 39: Equal / Compare take an interface{}
	e.Decls[ue3].Methods = "Ei.Ci"
	add("UW3", "", ty.St(f("P", ty.P(ty.N(39))), f("V", ty.N(39)), f("L", ty.Sl(ty.N(39)))), false) // 40
	// embedding: a struct that EMBEDS a type with Equal/Compare methods has them promoted into its method set but does
	// not declare them (it is compared field by field, the embedded field by its method); and an outer field that
	// shadows a field of the embedded struct (selectors must go through the embedded field)
	add("EmU", "", ty.St(ty.Field{Name: "UE3", Embedded: true, T: ty.N(39)}, f("N", b("int"))), false) // 41
	add("ES", "", ty.St(ty.Field{Name: "S1", Embedded: true, T: ty.N(5)}, f("A", b("string"))), false) // 42
	// float-keyed maps as components (a destination's map may hold NaN keys, which cannot be deleted one by one)
	add("FM", "", ty.St(f("M", ty.M(b("float64"), ty.Sl(b("int")))), f("K", ty.M(ty.N(2), b("string"))), f("N", b("int"))), false) // 43
	// an imported struct whose ONLY unexported field is the blank one (the `_ struct{}` keyed-literal idiom), and one
	// whose unexported fields start with letters outside ASCII
	xo := add("XO", "ext", ty.St(f("A", b("int")), f("B", ty.Sl(b("string")))), false) // 44
	e.Decls[xo].Under.Blanks = map[int]string{1: "struct{}"}
	add("XU", "ext", ty.St(f("ünicode", ty.Sl(b("int"))), f("名前", b("string")), f("Ünicode", b("int"))), true) // 45
	// a named uint64 (the hash of such a field needs a conversion: F65), as a field, a map key and an element
	add("NU64", "", b("uint64"), false)                                                                         // 46
	add("SU", "", ty.St(f("A", ty.N(46)), f("M", ty.M(ty.N(46), b("string"))), f("L", ty.Sl(ty.N(46)))), false) // 47
	// a named map and a named slice that declare their own DeepCopy (value receiver, written as the derived function
	// copies them), and a struct that holds them in every position: the generator calls the method there
	udm := add("UDM", "", ty.M(b("string"), b("int")), false) // 48
	e.Decls[udm].Methods = "Dv"
	uds := add("UDS", "", ty.Sl(b("int")), false) // 49
	e.Decls[uds].Methods = "Dv"
	add("UDW", "", ty.St(f("M", ty.N(48)), f("S", ty.N(49)), f("P", ty.P(ty.N(48))), f("L", ty.Sl(ty.N(48))), f("V", ty.M(b("string"), ty.N(49))), f("Q", ty.P(ty.N(49)))), false) // 50
	// arrays of arrays whose elements are not assignable: nested loops over one array
	add("AA", "", ty.St(f("G", ty.Ar(3, ty.Ar(2, ty.P(b("int"))))), f("H", ty.Ar(2, ty.Ar(3, ty.Sl(b("string")))))), false) // 51
	// the same exported name in two packages, one with its own Equal / Hash methods (UE1 of p), one without (this
	// one): whatever is remembered per type must not be keyed by the bare name
	add("UE1", "ext", ty.St(f("A", b("int")), f("B", ty.Sl(b("int")))), false)                                       // 52
	add("SUE", "", ty.St(f("X", ty.N(52)), f("L", ty.N(31)), f("P", ty.P(ty.N(52))), f("Q", ty.P(ty.N(31)))), false) // 53
	add("SUE2", "", ty.St(f("L", ty.N(31)), f("X", ty.N(52))), false)                                                // 54
	// two instances of one generic struct (written as aliases of the instances; go/types hands the generator the
	// instances, which share their declared name Opt): one comparable with ==, one holding a pointer
	oi := add("OptI", "", ty.St(f("V", b("int")), f("Ok", b("bool"))), false) // 55
	e.Decls[oi].Src = "type Opt[T any] struct {\n\tV  T\n\tOk bool\n}\n\ntype OptI = Opt[int]"
	op := add("OptP", "", ty.St(f("V", ty.P(b("int"))), f("Ok", b("bool"))), false) // 56
	e.Decls[op].Src = "type OptP = Opt[*int]"
	add("GH", "", ty.St(f("A", ty.N(55)), f("B", ty.N(56)), f("C", ty.Sl(ty.N(56))), f("D", ty.N(55))), false) // 57
	// a slice of arrays of slices: what lies in the spare capacity of the outer slice are ARRAYS, which are copied into in place
	add("Span", "", ty.Ar(2, ty.Sl(b("int"))), false)                       // 58
	add("SPN", "", ty.St(f("S", ty.Sl(ty.N(58))), f("N", b("int"))), false) // 59
	// Equal AND Hash() int32 with VALUE receivers (first field only, so both are coarser than the fields), and a
	// holder that reaches it by value, through a pointer, a slice of pointers and a map of pointers: behind a
	// pointer the generated code guards nil and then calls the pointee's methods (F117, F118)
	uh := add("UH", "", ty.St(f("A", b("int")), f("B", b("string"))), false) // 60
	e.Decls[uh].Methods = "Ev.Hv"
	add("HU", "", ty.St(f("P", ty.P(ty.N(60))), f("V", ty.N(60)), f("L", ty.Sl(ty.P(ty.N(60)))), f("M", ty.M(b("string"), ty.P(ty.N(60))))), false) // 61
	// a holder of pointers to UD (own DeepCopy method, pointer receiver) as a field, as slice and as array elements: the
	// generator calls the method there, and a nil pointer of the source has to clear what the destination held
	add("UDH", "", ty.St(f("P", ty.P(ty.N(38))), f("L", ty.Sl(ty.P(ty.N(38)))), f("A", ty.Ar(2, ty.P(ty.N(38)))), f("N", b("int"))), false) // 62
	return e
}

// LocalPkg is the derive package that also DECLARES types: for the generator these are not external (no
// reflect/unsafe path, unexported fields reached directly, embedded fields promoted in the same package).
const LocalPkg = "q0"

// LibLocal is Lib plus declarations that live in the derive package LocalPkg itself. Only the type corpus
// (gencorpus) and the helper-request observer use it: the other generators keep their own package layout.
func LibLocal() *ty.Env {
	e := Lib()
	n := len(e.Decls)
	add := func(name string, u *ty.Ty) int {
		e.Decls = append(e.Decls, &ty.Decl{Name: name, Pkg: LocalPkg, Under: u})
		return len(e.Decls) - 1
	}
	f, b := ty.F, ty.B
	ls1 := add("LS1", ty.St(f("A", b("int")), f("b", b("string"))))                                                // n+0: an unexported field, reached directly
	ls2 := add("LS2", ty.St(f("A", ty.P(b("int"))), f("b", ty.Sl(b("int"))), f("C", ty.M(b("string"), b("int"))))) // n+1
	lr := add("LR", ty.St(f("V", b("int")), f("next", ty.P(ty.N(n+2)))))                                           // n+2: recursive through an unexported field
	add("LES", ty.St(ty.Field{Name: "LS1", Embedded: true, T: ty.N(ls1)}, f("A", b("string"))))                    // n+3: the outer A shadows LS1.A
	add("LEm", ty.St(ty.Field{Name: "LS2", Embedded: true, T: ty.N(ls2)}, f("X", ty.Sl(b("byte")))))               // n+4
	lue := add("LUE", ty.St(f("A", b("int")), f("B", ty.Sl(b("int")))))                                            // n+5: own methods, pointer receivers
	e.Decls[lue].Methods = "Ep.Cp.Hp"
	add("LW", ty.St(f("P", ty.P(ty.N(lue))), f("V", ty.N(lue)), f("L", ty.Sl(ty.N(ls1))), f("M", ty.M(b("string"), ty.N(ls2))),
		f("x", ty.N(17)), f("R", ty.P(ty.N(lr))), f("E", ty.N(n+3)))) // n+6: local and imported parts side by side
	add("LNF", b("float64")) // n+7: a local named float
	// an IMPORTED struct whose unexported fields hold a type with its own Equal / Compare / Hash (of that package):
	// the reflect path of the generated code has to hand these components to their methods as the direct path does
	xue := len(e.Decls)
	e.Decls = append(e.Decls, &ty.Decl{Name: "XUE", Pkg: "ext", Under: ty.St(f("A", b("int")), f("B", ty.Sl(b("int")))), Methods: "Ep.Cp.Hp"}) // n+8
	e.Decls = append(e.Decls, &ty.Decl{Name: "XUH", Pkg: "ext", Priv: true,
		Under: ty.St(f("a", ty.N(xue)), f("b", ty.P(ty.N(xue))), f("C", b("int")))}) // n+9
	return e
}

// PointerKeyed are map types whose KEY is (underlying) a pointer, at the top level, as an element and as a map value.
// They are outside the Lean models (typing demands pointer-free keys; Go's == on them is identity: known finding F87
// for Equal / Compare / Hash): only the copy plugins see them, judged on the Go side (ops deepcopyk / clonek). The key
// types are such that copying a key needs no further generated function.
func PointerKeyed() []*ty.Ty {
	pi, ps, np := ty.P(ty.B("int")), ty.P(ty.N(5)), ty.N(13)
	return []*ty.Ty{
		ty.M(pi, ty.B("int")), ty.M(pi, ty.Sl(ty.B("int"))), ty.M(ps, ty.B("string")), ty.M(np, ty.P(ty.B("int"))),
		ty.M(ty.P(ty.B("string")), ty.M(ty.B("string"), ty.B("int"))),
		ty.Sl(ty.M(pi, ty.B("int"))), ty.M(ty.B("string"), ty.M(ps, ty.Sl(ty.B("int")))), ty.P(ty.M(pi, ty.P(ty.B("int")))),
	}
}

// Corpus is a set of top-level types over an environment.
type Corpus struct {
	Env   *ty.Env
	Types []*ty.Ty // T0, T1, …
}

type head func(*ty.Ty) *ty.Ty

func heads() []head {
	return []head{
		func(t *ty.Ty) *ty.Ty { return ty.P(t) },
		func(t *ty.Ty) *ty.Ty { return ty.Sl(t) },
		func(t *ty.Ty) *ty.Ty { return ty.Ar(2, t) },
		func(t *ty.Ty) *ty.Ty { return ty.M(ty.B("string"), t) },
	}
}

func leaves(env *ty.Env, thorough bool) []*ty.Ty {
	bs := []string{"bool", "int", "int8", "uint8", "int64", "uint64", "float32", "float64", "complex128", "string"}
	if thorough {
		bs = append(bs, "int16", "int32", "uint", "uint16", "uint32", "complex64", "uintptr")
	}
	var out []*ty.Ty
	for _, b := range bs {
		out = append(out, ty.B(b))
	}
	for i := range env.Decls {
		out = append(out, ty.N(i))
	}
	return out
}

func keyTypes() []*ty.Ty {
	return []*ty.Ty{ty.B("bool"), ty.B("int8"), ty.B("uint64"), ty.B("float64"), ty.B("complex128"), ty.B("string"), ty.N(0), ty.N(1), ty.N(5), ty.Ar(2, ty.B("int")), ty.N(15), ty.N(21), ty.N(35), ty.N(37),
		ty.St(ty.F("A", ty.B("int")), ty.F("B", ty.B("string")))}
}

// NewCorpus enumerates types: all leaves, every head over every leaf (depth 1), and depth 2
// exhaustively (thorough) or a seeded sample of n2 (quick); maps over every key type; unnamed
// structs; plus `extra` random depth-3 types.
func NewCorpus(rng *rand.Rand, thorough bool, n2, extra int) *Corpus {
	return NewCorpusEnv(Lib(), rng, thorough, n2, extra)
}

// NewCorpusEnv is NewCorpus over a given declaration library.
func NewCorpusEnv(env *ty.Env, rng *rand.Rand, thorough bool, n2, extra int) *Corpus {
	c := &Corpus{Env: env}
	seen := map[string]bool{}
	add := func(t *ty.Ty) {
		w := t.Wire()
		if !seen[w] {
			seen[w] = true
			c.Types = append(c.Types, t)
		}
	}
	ls := leaves(env, thorough)
	hs := heads()
	for _, l := range ls {
		add(l)
	}
	var d1 []*ty.Ty
	for _, h := range hs {
		for _, l := range ls {
			t := h(l)
			d1 = append(d1, t)
			add(t)
		}
	}
	for _, k := range keyTypes() {
		add(ty.M(k, ty.B("int")))
		add(ty.M(k, ty.Sl(ty.B("int"))))
	}
	var d2 []*ty.Ty
	for _, h := range hs {
		for _, t := range d1 {
			d2 = append(d2, h(t))
		}
	}
	if thorough {
		for _, t := range d2 {
			add(t)
		}
	} else {
		for _, i := range rng.Perm(len(d2)) {
			if n2 == 0 {
				break
			}
			add(d2[i])
			n2--
		}
	}
	// unnamed structs at top level (comparable and not)
	add(ty.St(ty.F("A", ty.B("int")), ty.F("B", ty.B("string"))))
	add(ty.St(ty.F("A", ty.Sl(ty.B("int"))), ty.F("B", ty.P(ty.N(5))), ty.F("C", ty.B("float64"))))
	add(ty.St())
	// shapes every tier must contain: maps whose values are arrays of slices / pointers / maps (the copy of
	// such an array is built in a local and stored; values under different keys must not share memory),
	// named float types inside non-comparable values, unsigned 64-bit leaves behind components
	for _, t := range []*ty.Ty{
		ty.M(ty.B("string"), ty.Ar(2, ty.Sl(ty.B("int")))),
		ty.M(ty.B("int8"), ty.Ar(1, ty.Sl(ty.B("string")))),
		ty.M(ty.B("string"), ty.Ar(2, ty.P(ty.B("int")))),
		ty.M(ty.B("string"), ty.Ar(2, ty.M(ty.B("string"), ty.B("int")))),
		ty.M(ty.B("string"), ty.Ar(2, ty.Ar(2, ty.Sl(ty.B("int"))))),
		ty.P(ty.St(ty.F("M", ty.M(ty.B("string"), ty.Ar(2, ty.Sl(ty.B("int"))))), ty.F("N", ty.B("int")))),
		ty.Sl(ty.P(ty.N(2))), ty.Sl(ty.Sl(ty.N(2))), ty.P(ty.St(ty.F("T", ty.N(2)), ty.F("S", ty.Sl(ty.B("string"))))),
		ty.P(ty.St(ty.F("U", ty.B("uint64")), ty.F("V", ty.B("uint8")), ty.F("W", ty.M(ty.B("uint64"), ty.B("bool"))))),
		ty.M(ty.B("bool"), ty.Sl(ty.B("string"))),
		ty.P(ty.N(47)), ty.Sl(ty.N(46)), ty.P(ty.N(50)),
		// arrays of arrays whose elements are not assignable (nested loops over one array)
		ty.P(ty.N(51)), ty.P(ty.N(53)), ty.P(ty.N(54)), ty.P(ty.N(57)), ty.P(ty.N(59)),
		// a pointer to a pointer BELOW the top level (element, map value, array element, field R of SP; also *NP with
		// `type NP *int`): the inner target has to be copied as well
		ty.Sl(ty.P(ty.P(ty.B("int")))), ty.M(ty.B("string"), ty.P(ty.P(ty.B("int")))),
		ty.P(ty.Ar(2, ty.P(ty.P(ty.Sl(ty.B("int")))))), ty.Sl(ty.P(ty.N(13))), ty.M(ty.B("int8"), ty.P(ty.N(13))),
		ty.P(ty.N(20)), ty.Sl(ty.P(ty.P(ty.N(6)))),
		// float- and complex-keyed maps whose VALUES are a pointer, a slice, a map (the copy ops add NaN keys holding
		// non-nil / non-empty values: what is stored under such a key cannot be reached through the key again)
		ty.M(ty.B("float64"), ty.P(ty.B("string"))), ty.M(ty.B("float32"), ty.M(ty.B("string"), ty.B("int"))),
		ty.M(ty.B("float64"), ty.Sl(ty.Sl(ty.B("int")))), ty.M(ty.B("complex128"), ty.P(ty.N(6))),
		ty.Sl(ty.M(ty.N(2), ty.P(ty.B("int")))),
		// pointers to a struct with its own DeepCopy method: as elements of a top-level slice, of an array, in a holder
		ty.Sl(ty.P(ty.N(38))), ty.P(ty.Ar(2, ty.P(ty.N(38)))), ty.P(ty.N(62)), ty.Sl(ty.N(62)),
	} {
		add(t)
	}
	for i := 0; i < extra; i++ {
		add(c.Random(rng, 3))
	}
	return c
}

// Random draws a random type of at most the given constructor depth.
func (c *Corpus) Random(rng *rand.Rand, depth int) *ty.Ty {
	ls := leaves(c.Env, true)
	if depth == 0 || rng.Intn(4) == 0 {
		return ls[rng.Intn(len(ls))]
	}
	switch rng.Intn(5) {
	case 0:
		return ty.P(c.Random(rng, depth-1))
	case 1:
		return ty.Sl(c.Random(rng, depth-1))
	case 2:
		return ty.Ar(rng.Intn(3)+1, c.Random(rng, depth-1))
	case 3:
		ks := keyTypes()
		return ty.M(ks[rng.Intn(len(ks))], c.Random(rng, depth-1))
	default:
		n := rng.Intn(3) + 1
		fs := make([]ty.Field, n)
		for i := range fs {
			t := c.Random(rng, depth-1)
			// unnamed non-comparable structs are unsupported as components: keep inner structs named
			for c.Env.Under(t).K == ty.Struct && t.K != ty.Named {
				t = ls[rng.Intn(len(ls))]
			}
			fs[i] = ty.F(fmt.Sprintf("F%d", i), t)
		}
		return ty.St(fs...)
	}
}

// MethodSrc is the Go source of the methods a declaration declares (Decl.Methods lists them as
// "Ep" / "Ev" = Equal with pointer / value parameter, "Cp" / "Cv" = Compare, "Hp" / "Hv" = Hash() int32 on a
// pointer / value receiver). Every method looks at the first field (an int) only; pointer methods are nil-safe.
func MethodSrc(d *ty.Decl) string {
	n := d.Name
	src := ""
	for _, m := range strings.Split(d.Methods, ".") {
		switch m {
		case "Ep":
			src += fmt.Sprintf("func (this *%[1]s) Equal(that *%[1]s) bool {\n\tif this == nil || that == nil {\n\t\treturn this == nil && that == nil\n\t}\n\treturn this.A == that.A\n}\n\n", n)
		case "Ev":
			src += fmt.Sprintf("func (this %[1]s) Equal(that %[1]s) bool { return this.A == that.A }\n\n", n)
		case "Cp":
			src += fmt.Sprintf("func (this *%[1]s) Compare(that *%[1]s) int {\n\tif this == nil {\n\t\tif that == nil {\n\t\t\treturn 0\n\t\t}\n\t\treturn -1\n\t}\n\tif that == nil {\n\t\treturn 1\n\t}\n\tif this.A < that.A {\n\t\treturn -1\n\t}\n\tif this.A > that.A {\n\t\treturn 1\n\t}\n\treturn 0\n}\n\n", n)
		case "Cv":
			src += fmt.Sprintf("func (this %[1]s) Compare(that %[1]s) int {\n\tif this.A < that.A {\n\t\treturn -1\n\t}\n\tif this.A > that.A {\n\t\treturn 1\n\t}\n\treturn 0\n}\n\n", n)
		case "Cs":
			// on a named string: a Compare that is coarser than the natural order (every pair ties). Sort, keys and
			// hash order such keys with <, never with this method; only the compare plugin would call it.
			src += fmt.Sprintf("func (this %[1]s) Compare(that %[1]s) int { return 0 }\n\n", n)
		case "Ei":
			// the parameter is an interface: the generator passes the pointer, as for a pointer parameter. The interface is a
			// NAMED, non-empty one that only the pointer implements (the convention of crypto: Equal(x crypto.PublicKey) bool)
			src += fmt.Sprintf("type %[1]sKeyer interface{ KeyOf%[1]s() int }\n\nfunc (this *%[1]s) KeyOf%[1]s() int { return this.A }\n\n", n)
			src += fmt.Sprintf("func (this *%[1]s) Equal(other %[1]sKeyer) bool {\n\tthat, _ := other.(*%[1]s)\n\tif this == nil || that == nil {\n\t\treturn this == nil && that == nil\n\t}\n\treturn this.A == that.A\n}\n\n", n)
		case "Ci":
			src += fmt.Sprintf("func (this *%[1]s) Compare(other interface{}) int {\n\tthat, _ := other.(*%[1]s)\n\tif this == nil {\n\t\tif that == nil {\n\t\t\treturn 0\n\t\t}\n\t\treturn -1\n\t}\n\tif that == nil {\n\t\treturn 1\n\t}\n\tif this.A < that.A {\n\t\treturn -1\n\t}\n\tif this.A > that.A {\n\t\treturn 1\n\t}\n\treturn 0\n}\n\n", n)
		case "Dp":
			// DeepCopy written by hand exactly as the derived function copies these two fields (same reuse of the
			// destination's backing array, same allocations): the models need not know the method exists, while the
			// generator's method dispatch (call the method instead of requesting a helper) is exercised
			src += fmt.Sprintf("func (this *%[1]s) DeepCopy(that *%[1]s) {\n\tthat.A = this.A\n\tif this.B == nil {\n\t\tthat.B = nil\n\t} else {\n\t\tif that.B != nil {\n\t\t\tif len(this.B) > len(that.B) {\n\t\t\t\tif cap(that.B) >= len(this.B) {\n\t\t\t\t\tthat.B = (that.B)[:len(this.B)]\n\t\t\t\t} else {\n\t\t\t\t\tthat.B = make([]int, len(this.B))\n\t\t\t\t}\n\t\t\t} else if len(this.B) < len(that.B) {\n\t\t\t\tthat.B = (that.B)[:len(this.B)]\n\t\t\t}\n\t\t} else {\n\t\t\tthat.B = make([]int, len(this.B))\n\t\t}\n\t\tcopy(that.B, this.B)\n\t}\n}\n\n", n)
		case "Dv":
			// on a named map or slice: the method copies as the derived function for the underlying type does
			if d.Under.K == ty.Map {
				src += fmt.Sprintf("func (this %[1]s) DeepCopy(that %[1]s) {\n\tfor k, v := range this {\n\t\tthat[k] = v\n\t}\n}\n\n", n)
			} else {
				src += fmt.Sprintf("func (this %[1]s) DeepCopy(that %[1]s) { copy(that, this) }\n\n", n)
			}
		case "Hv":
			src += fmt.Sprintf("func (this %[1]s) Hash() int32 { return int32(this.A) }\n\n", n)
		case "Hp":
			src += fmt.Sprintf("func (this *%[1]s) Hash() int32 {\n\tif this == nil {\n\t\treturn 0\n\t}\n\treturn int32(this.A)\n}\n\n", n)
		}
	}
	return src
}
