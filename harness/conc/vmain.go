package conc

import (
	"bufio"
	"encoding/json"
	"flag"
	"fmt"
	"math/rand"
	"os"
	"path/filepath"
	"runtime"
	"strings"
	"time"

	"verifharness/vsched"
)

// Replay is what a violation's replay file carries for the scheduler runs.
type Replay struct {
	Config  Config `json:"config"`
	Choices []int  `json:"choices"`
	POR     bool   `json:"por,omitempty"` // the choices index the sleep-set-reduced transition lists
}

// Exec is the result of one execution on the virtual scheduler.
type Exec struct {
	Config  Config
	Res     *vsched.Result
	Log     []vsched.Event // canonical names
	Bad     []string       // violated observable clauses
	Pending []string       // pending witness class (see CheckDelivery)
	Outcome Outcome
}

// RunOne executes the configuration under the strategy and checks the observable clauses.
func RunOne(F *VFuncs, c Config, strat vsched.Strategy, por bool) (*Exec, error) {
	ex := &Exec{Config: c}
	body, err := VBody(F, c, &ex.Outcome)
	if err != nil {
		return nil, err
	}
	size := 8
	for _, it := range c.Items {
		size += len(it) + 2
	}
	size += c.N*4 + len(c.Pairs)
	if por {
		ex.Res = vsched.RunPOR(strat, 40*size+200, body)
	} else {
		ex.Res = vsched.Run(strat, 40*size+200, body)
	}
	ex.Log = CanonLog(ex.Res.Log)
	switch ex.Res.Outcome {
	case "pruned":
	case "panic":
		ex.Bad = append(ex.Bad, "panic: "+ex.Res.Detail)
	case "deadlock":
		ex.Bad = append(ex.Bad, "deadlock / goroutines left blocked: "+ex.Res.Detail)
	case "steplimit":
		ex.Bad = append(ex.Bad, "no termination within the step limit (livelock): "+ex.Res.Detail)
	default:
		if c.Sys == "do" {
			log := ex.Log
			if c.Overlap != "" {
				log = nil // the events of two calls are interleaved: results and termination only
			}
			ex.Bad = append(ex.Bad, CheckDo(c, &ex.Outcome, log)...)
		} else {
			bad, pend := CheckDelivery(c, &ex.Outcome)
			ex.Bad, ex.Pending = append(ex.Bad, bad...), pend
			ex.Bad = append(ex.Bad, CheckLogC19(c, ex.Log)...)
		}
	}
	ex.Bad = MutateNote(c, ex.Bad)
	return ex, nil
}

type sysStats struct {
	Executions       int `json:"executions"`
	RandomSchedules  int `json:"random_schedules"`
	DfsSchedules     int `json:"dfs_schedules"`
	DfsConfigs       int `json:"dfs_configs"`
	DfsExhaustive    int `json:"dfs_configs_exhaustive"`
	Events           int `json:"events"`
	DistinctConfigs  int `json:"distinct_configs"`
	MaxTraceLen      int `json:"max_trace_len"`
	MaxChoicePoints  int `json:"max_choice_points"`
	NontrivialTraces int `json:"nontrivial_traces"` // at least one item delivered / one function failed or rendezvoused
	Pruned           int `json:"por_pruned_runs"`   // runs cut by the sleep sets (redundant interleavings)
	PorConfigs       int `json:"por_dfs_configs"`
	PorExhaustive    int `json:"por_dfs_configs_exhaustive"`
	PorSchedules     int `json:"por_dfs_schedules"`
}

// Violation found on the real (rewritten) code.
type Violation struct {
	Replay Replay   `json:"replay"`
	What   []string `json:"what"`
	Trace  []string `json:"trace"`
}

type summary struct {
	Mode       string               `json:"mode"`
	Seed       int64                `json:"seed"`
	Systems    map[string]*sysStats `json:"systems"`
	Violations []Violation          `json:"violations"`
	Pending    []Violation          `json:"pending"`               // pending witness class dupchan-order
	PendingN   int                  `json:"pending_count"`         // executions in that class
	Unmodelled int                  `json:"unmodelled_executions"` // duplicated-channel runs: observable clauses only, no LTS replay
	Samples    []map[string]any     `json:"samples"`
	Executions int                  `json:"executions"`
	TimedOut   bool                 `json:"stopped_at_time_limit"`
}

type runner struct {
	F        *VFuncs
	sum      *summary
	ops      *bufio.Writer
	index    *bufio.Writer
	id       int
	configs  map[string]map[string]bool
	deadline time.Time
}

func (r *runner) record(ex *Exec, por bool) {
	st := r.sum.Systems[ex.Config.Sys]
	if ex.Res.Outcome == "pruned" {
		st.Pruned++
		return
	}
	st.Executions++
	st.Events += len(ex.Log)
	if len(ex.Log) > st.MaxTraceLen {
		st.MaxTraceLen = len(ex.Log)
	}
	if len(ex.Res.Choices) > st.MaxChoicePoints {
		st.MaxChoicePoints = len(ex.Res.Choices)
	}
	key := ex.Config.Key()
	if !r.configs[ex.Config.Sys][key] {
		r.configs[ex.Config.Sys][key] = true
		st.DistinctConfigs++
	}
	nontrivial := len(ex.Config.Pairs) > 0
	for _, it := range ex.Config.Items {
		if len(it) > 0 {
			nontrivial = true
		}
	}
	for _, e := range ex.Config.Errs {
		if e != 0 {
			nontrivial = true
		}
	}
	if nontrivial {
		st.NontrivialTraces++
	}
	picks := make([]int, len(ex.Res.Choices))
	for i, c := range ex.Res.Choices {
		picks[i] = c.Pick
	}
	if len(ex.Pending) > 0 {
		r.sum.PendingN++
		if len(r.sum.Pending) < 3 {
			r.sum.Pending = append(r.sum.Pending, Violation{Replay{ex.Config, picks, por}, ex.Pending, traceStrings(ex.Log)})
		}
	}
	if ex.Config.Overlap != "" { // two calls of Do in flight: outside the single-call LTS, not replayed
		r.sum.Unmodelled++
		if len(ex.Bad) > 0 && len(r.sum.Violations) < 20 {
			r.sum.Violations = append(r.sum.Violations, Violation{Replay{ex.Config, picks, por}, ex.Bad, traceStrings(ex.Log)})
		}
		return
	}
	r.id++
	r.sum.Executions++
	var b strings.Builder
	fmt.Fprintf(&b, "op %d conc %s %s", r.id, ex.Config.LeanSys(), ex.Config.Sexp())
	for _, e := range ex.Log {
		b.WriteString(" ")
		b.WriteString(e.String())
	}
	b.WriteString("\n")
	r.ops.WriteString(b.String())
	ij, _ := json.Marshal(map[string]any{"id": r.id, "config": ex.Config, "choices": picks, "por": por, "outcome": ex.Res.Outcome})
	r.index.Write(ij)
	r.index.WriteString("\n")
	if len(ex.Bad) > 0 && len(r.sum.Violations) < 20 {
		r.sum.Violations = append(r.sum.Violations, Violation{Replay{ex.Config, picks, por}, ex.Bad, traceStrings(ex.Log)})
	}
	if len(r.sum.Samples) < 6 && nontrivial && r.id%37 == 1 {
		r.sum.Samples = append(r.sum.Samples, map[string]any{"config": ex.Config, "choices": picks,
			"outcome": ex.Res.Outcome, "trace": traceStrings(ex.Log)})
	}
}

func traceStrings(log []vsched.Event) []string {
	out := make([]string, len(log))
	for i, e := range log {
		out[i] = e.String()
	}
	return out
}

// enough failing schedules were found: stop exploring (each further one costs a full step limit)
func (r *runner) enough() bool {
	return len(r.sum.Violations) >= 5 || (!r.deadline.IsZero() && time.Now().After(r.deadline))
}

func (r *runner) random(c Config, n int, rng *rand.Rand) error {
	for i := 0; i < n && !r.enough(); i++ {
		ex, err := RunOne(r.F, c, &vsched.Random{State: rng.Uint64() | 1}, false)
		if err != nil {
			return err
		}
		r.sum.Systems[c.Sys].RandomSchedules++
		r.record(ex, false)
	}
	return nil
}

// dfs explores every schedule of the configuration, up to budget executions; with por, one
// representative per class of interleavings that differ only in the order of independent steps.
func (r *runner) dfs(c Config, budget int, por bool) error {
	st := r.sum.Systems[c.Sys]
	if budget == 0 {
		return nil
	}
	if por {
		st.PorConfigs++
	} else {
		st.DfsConfigs++
	}
	var prefix []int
	for n := 0; ; n++ {
		if n >= budget || r.enough() {
			return nil
		}
		ex, err := RunOne(r.F, c, &vsched.Replay{Prefix: prefix}, por)
		if err != nil {
			return err
		}
		if ex.Res.Outcome != "pruned" {
			if por {
				st.PorSchedules++
			} else {
				st.DfsSchedules++
			}
		}
		r.record(ex, por)
		next, ok := vsched.Next(ex.Res.Choices)
		if !ok {
			if por {
				st.PorExhaustive++
			} else {
				st.DfsExhaustive++
			}
			return nil
		}
		prefix = next
	}
}

// MainV is the main function of the generated program cmd/vsrun.
func MainV(F *VFuncs) {
	mode := flag.String("mode", "quick", "quick | thorough")
	seed := flag.Int64("seed", 1, "seed of configurations and schedules")
	out := flag.String("out", "", "output directory")
	systems := flag.String("systems", strings.Join(ChannelSystems, ","), "systems to run")
	replay := flag.String("replay", "", "replay file (JSON with config and choices)")
	maxsec := flag.Int("maxsec", 0, "stop exploring after this many seconds (0 = no limit); the summary says so")
	flag.Parse()
	// two processors: the virtual scheduler runs one goroutine at a time anyway; an emitted function that sizes
	// something by GOMAXPROCS then meets configurations with more inputs than processors
	runtime.GOMAXPROCS(2)
	if *replay != "" {
		os.Exit(replayMain(F, *replay))
	}
	if err := os.MkdirAll(*out, 0o755); err != nil {
		fatal(err)
	}
	fo, err := os.Create(filepath.Join(*out, "ops.txt"))
	if err != nil {
		fatal(err)
	}
	fi, err := os.Create(filepath.Join(*out, "index.jsonl"))
	if err != nil {
		fatal(err)
	}
	r := &runner{F: F, sum: &summary{Mode: *mode, Seed: *seed, Systems: map[string]*sysStats{}},
		ops: bufio.NewWriterSize(fo, 1<<20), index: bufio.NewWriterSize(fi, 1<<20), configs: map[string]map[string]bool{}}
	rng := rand.New(rand.NewSource(*seed))
	thorough := *mode == "thorough"
	if *maxsec > 0 {
		r.deadline = time.Now().Add(time.Duration(*maxsec) * time.Second)
	}
	for _, sys := range strings.Split(*systems, ",") {
		r.sum.Systems[sys] = &sysStats{}
		r.configs[sys] = map[string]bool{}
		if err := r.plan(sys, thorough, rng); err != nil {
			fatal(err)
		}
	}
	r.ops.Flush()
	r.index.Flush()
	fo.Close()
	fi.Close()
	r.sum.TimedOut = !r.deadline.IsZero() && time.Now().After(r.deadline)
	js, _ := json.MarshalIndent(r.sum, "", " ")
	if err := os.WriteFile(filepath.Join(*out, "summary.json"), js, 0o644); err != nil {
		fatal(err)
	}
}

func (r *runner) plan(sys string, thorough bool, rng *rand.Rand) error {
	each := func(cs []Config, budget int, por bool) error {
		for _, c := range cs {
			if err := r.dfs(c, budget, por); err != nil {
				return err
			}
		}
		return nil
	}
	if sys == "do" {
		// n functions x every failing subset x rendezvous patterns (DoConfigs), then random ones
		for n := 2; n <= 4; n++ {
			full, por := 3000, 3000
			if thorough {
				full, por = 40000, 200000
			}
			if !thorough && n == 4 {
				full = 0 // too many interleavings for the quick tier: reduced exploration only
			}
			if err := each(DoConfigs(n), full, false); err != nil {
				return err
			}
			if err := each(DoConfigs(n), por, true); err != nil {
				return err
			}
		}
		if err := each(OverlapConfigs(), 3000, true); err != nil { // two calls of one generated Do in flight
			return err
		}
		nr := 150
		if thorough {
			nr = 3000
		}
		for i := 0; i < nr; i++ {
			if err := r.random(RandomConfig("do", rng, 0, 0, 0), 6, rng); err != nil {
				return err
			}
		}
		return nil
	}
	one := sys == "fmap" || sys == "dup" || sys == "fmapch"
	// (0) nothing at all: zero inputs / no items, every interleaving (both tiers)
	for _, c := range ZeroConfigs(sys) {
		if len(c.Items) > 3 { // 5 / 6 channel arguments: up to commutation of independent steps
			if err := r.dfs(c, 5000, true); err != nil {
				return err
			}
		} else if err := r.dfs(c, 150000, false); err != nil {
			return err
		}
	}
	// (a) every interleaving, unreduced, for the smallest configurations
	full := 3000
	if thorough {
		full = 150000
	}
	if err := each(SmallConfigs(sys, 1, map[bool]int{false: 1, true: 2}[thorough], 1), full, false); err != nil {
		return err
	}
	if !one {
		if err := each(SmallConfigs(sys, 0, 0, 1), full, false); err != nil {
			return err
		}
		if sys == "joinsel" || thorough {
			if err := each(SmallConfigs(sys, 2, 1, 0), full, false); err != nil {
				return err
			}
		}
	}
	// (b) every interleaving up to commutation of independent steps (sleep sets)
	por := 2500
	if thorough {
		por = 300000
	}
	if one {
		if err := each(SmallConfigs(sys, 1, map[bool]int{false: 3, true: 4}[thorough], 2), por, true); err != nil {
			return err
		}
		// input capacities 3 and 4 (the producer may run ahead and close right after its last send)
		for _, c := range SmallConfigs(sys, 1, map[bool]int{false: 3, true: 5}[thorough], 4) {
			if c.Caps[0] >= 3 {
				if err := r.dfs(c, por, true); err != nil {
					return err
				}
			}
		}
		if sys == "fmap" { // lock-step producer: the next item only after the consumer has the result of the previous one
			if err := each(LockStepConfigs(), por, true); err != nil {
				return err
			}
		}
		if sys == "fmapch" { // every pattern of items for which the function returns nil
			if err := each(FmapChConfigs(map[bool]int{false: 3, true: 4}[thorough], 2), por, true); err != nil {
				return err
			}
		}
	} else {
		if err := each(SmallConfigs(sys, 2, 2, 1), por, true); err != nil {
			return err
		}
		if thorough || sys == "joinsel" {
			if err := each(SmallConfigs(sys, 3, 1, 1), por, true); err != nil {
				return err
			}
		}
		if sys == "joinsel" { // one goroutine deals the items over the unbuffered inputs, last argument first
			if err := each(DealerConfigs(), por, true); err != nil {
				return err
			}
		}
		if sys == "joinsel" { // channel arguments that are nil at run time
			if err := each(NilArgConfigs(2), por, true); err != nil {
				return err
			}
		}
		if sys == "joinsel" { // 5 and 6 channel arguments: one item on every input, unbuffered / capacity 1
			for _, n := range []int{5, 6} {
				for _, c := range SmallConfigs(sys, n, 1, 1) {
					full, same := true, true
					for i := range c.Items {
						full = full && len(c.Items[i]) == 1
						same = same && c.Caps[i] == c.Caps[0]
					}
					if full && same {
						wide := 1500 // runs (the schedule space of 5 and 6 inputs is not exhausted in the quick tier)
						if thorough {
							wide = por
						}
						if err := r.dfs(c, wide, true); err != nil {
							return err
						}
					}
				}
			}
		}
	}
	if sys == "joinsc" || sys == "joincc" { // the same channel at several positions of the slice / sent twice on the outer channel
		if err := each(DupSliceConfigs(sys, 2, 1), por, true); err != nil {
			return err
		}
		for _, c := range DupSliceConfigs(sys, 3, 2) {
			if err := r.random(c, 4, rng); err != nil {
				return err
			}
		}
	}
	if sys == "joincc" || sys == "joinsc" { // one round-robin producer over unbuffered inputs (interdependent inputs)
		if err := each(RRConfigs(sys), por, true); err != nil {
			return err
		}
	}
	if sys == "joinsc" { // more than 16 positions, one channel given twice far apart: random schedules
		nr := 40
		if thorough {
			nr = 400
		}
		for _, c := range LongSliceConfigs() {
			if err := r.random(c, nr, rng); err != nil {
				return err
			}
		}
	}
	if sys == "joinsc" { // the caller overwrites its list right after the call
		if err := each(MutateConfigs(), por, true); err != nil {
			return err
		}
	}
	// (c) random deeper configurations, random schedules
	nc, ns, maxIn, maxItems := 100, 6, 3, 3
	if thorough {
		nc, ns, maxIn, maxItems = 2500, 8, 4, 5
	}
	for i := 0; i < nc; i++ {
		if err := r.random(RandomConfig(sys, rng, maxIn, maxItems, 2), ns, rng); err != nil {
			return err
		}
	}
	return nil
}

func fatal(err error) {
	fmt.Fprintln(os.Stderr, "vsrun:", err)
	os.Exit(2)
}

func replayMain(F *VFuncs, path string) int {
	data, err := os.ReadFile(path)
	if err != nil {
		fatal(err)
	}
	var outer struct {
		Replay *Replay `json:"replay"`
	}
	var rp Replay
	if err := json.Unmarshal(data, &outer); err == nil && outer.Replay != nil {
		rp = *outer.Replay
	} else if err := json.Unmarshal(data, &rp); err != nil {
		fatal(err)
	}
	ex, err := RunOne(F, rp.Config, &vsched.Replay{Prefix: rp.Choices}, rp.POR)
	if err != nil {
		fatal(err)
	}
	fmt.Printf("config: %s\noutcome: %s %s\n", rp.Config.Key(), ex.Res.Outcome, ex.Res.Detail)
	for _, e := range ex.Log {
		fmt.Println("  " + e.String())
	}
	fmt.Printf("op 1 conc %s %s", rp.Config.LeanSys(), rp.Config.Sexp())
	for _, e := range ex.Log {
		fmt.Print(" " + e.String())
	}
	fmt.Println()
	for _, b := range ex.Pending {
		fmt.Println("PENDING (witness class dupchan-order): " + b)
	}
	if len(ex.Bad) > 0 {
		for _, b := range ex.Bad {
			fmt.Println("VIOLATED: " + b)
		}
		return 1
	}
	fmt.Println("all observable clauses hold on this schedule")
	return 0
}
