package conc

import (
	"fmt"
	"sort"
	"strings"

	"verifharness/vsched"
)

func eqInts(a, b []int) bool {
	if len(a) != len(b) {
		return false
	}
	for i := range a {
		if a[i] != b[i] {
			return false
		}
	}
	return true
}

// CheckDelivery checks the clauses of C19 that are visible in what the consumers received:
// every item exactly once per output, per-input order (whole order for fmap and dup), close observed.
// A channel given at several positions (Config.Slice) is one input: its items exactly once, in order (finding F64,
// repaired: the join listens once to a channel that is given twice).
func CheckDelivery(c Config, o *Outcome) (bad, pending []string) {
	switch c.Sys {
	case "fmap":
		want := make([]int, len(c.Items[0]))
		for i, v := range c.Items[0] {
			want[i] = F(v)
		}
		if !eqInts(o.Got[0], want) {
			bad = append(bad, fmt.Sprintf("fmap output %v, want %v (each item once, in order)", o.Got[0], want))
		}
	case "fmapch":
		want := make([]int, len(c.Items[0]))
		for i, v := range c.Items[0] {
			want[i] = FCh(v)
		}
		if !eqInts(o.Got[0], want) {
			bad = append(bad, fmt.Sprintf("fmap (channel-valued function) output %v, want %v: one output item per input item, in order (999999 = nil)", o.Got[0], want))
		}
	case "dup":
		for k := 0; k < 2; k++ {
			if !eqInts(o.Got[k], c.Items[0]) {
				bad = append(bad, fmt.Sprintf("dup output %d received %v, want %v", k+1, o.Got[k], c.Items[0]))
			}
		}
	default:
		// interface-typed streams: the special items (nil interface value, typed-nil pointer) carry no input identity;
		// they are compared by count, the ordinary items per input and in order
		per := make([][]int, len(c.Items))
		want := make([][]int, len(c.Items))
		sentSpecial, gotSpecial := map[int]int{}, map[int]int{}
		for i, its := range c.Items {
			for _, v := range its {
				if IsIface(c.Variant) && v < 100 {
					sentSpecial[v]++
				} else {
					want[i] = append(want[i], v)
				}
			}
		}
		for _, v := range o.Got[0] {
			if IsIface(c.Variant) && (v == NilItem || v == NilPtrItem) {
				gotSpecial[v]++
				continue
			}
			i := InputOf(v)
			if i < 0 || i >= len(per) {
				bad = append(bad, fmt.Sprintf("received %d which no input sent", v))
				continue
			}
			per[i] = append(per[i], v)
		}
		for _, sp := range []int{NilItem, NilPtrItem} {
			if sentSpecial[sp] != gotSpecial[sp] {
				name := map[int]string{NilItem: "nil interface values", NilPtrItem: "typed-nil pointers in a non-nil interface"}[sp]
				bad = append(bad, fmt.Sprintf("items sent %v: %d %s were sent, %d received (received in all: %v)", c.Items, sentSpecial[sp], name, gotSpecial[sp], o.Got[0]))
			}
		}
		for i := range per {
			if !eqInts(per[i], want[i]) {
				msg := fmt.Sprintf("items of input %d received as %v, sent %v (exactly once, in order)", i, per[i], want[i])
				srt := append([]int{}, per[i]...)
				sort.Ints(srt)
				if c.Duplicated(i) && eqInts(srt, want[i]) {
					msg = fmt.Sprintf("input %d is given at several positions %v and its items arrive reordered (witness class dupchan-order): %s", i, c.Slice, msg)
				}
				bad = append(bad, msg)
			}
		}
	}
	for k, s := range o.SawClose {
		if !s {
			bad = append(bad, fmt.Sprintf("consumer of output %d never observed the close", k+1))
		}
	}
	return bad, pending
}

func isInput(ch string) bool {
	return ch == "in" || (strings.HasPrefix(ch, "in") && len(ch) > 2 && ch[2] >= '0' && ch[2] <= '9')
}

// outputsOf returns the channels the consumers received on (whatever the emitted code calls them); when
// a consumer never got anything, the names the unchanged code uses.
func outputsOf(c Config, log []vsched.Event) []string {
	seen := map[string]bool{}
	var outs []string
	add := func(site, ch string) {
		if strings.HasPrefix(site, "cons") && !seen[ch] {
			seen[ch] = true
			outs = append(outs, ch)
		}
	}
	for _, e := range log {
		switch e.Kind {
		case "recv", "recvc":
			add(e.Site, e.Ch)
		case "xfer":
			add(e.Site2, e.Ch)
		}
	}
	want := 1
	if c.Sys == "dup" {
		want = 2
	}
	if len(outs) == want {
		return outs
	}
	switch c.Sys {
	case "fmap", "fmapch":
		return []string{"fmap.out"}
	case "dup":
		return []string{"dup.cc1", "dup.cc2"}
	case "joinsel":
		return []string{"joinsel.out"}
	}
	return []string{"join.out"}
}

// clocks computes a vector clock for every event of the log: two events are ordered when they share a
// goroutine or an object (channel, WaitGroup, marked variable), transitively.  hb(a, b) then holds iff
// event a happens before event b in EVERY interleaving equivalent to this one (so the checks below do
// not depend on how independent steps happened to be ordered by the scheduler).
func clocks(log []vsched.Event) (clk [][]int, hb func(a, b int) bool) {
	ng := 1
	for _, e := range log {
		if e.G+1 > ng {
			ng = e.G + 1
		}
		if e.G2+1 > ng {
			ng = e.G2 + 1
		}
	}
	gclk := make([][]int, ng)
	for i := range gclk {
		gclk[i] = make([]int, ng)
	}
	oclk := map[string][]int{}
	clk = make([][]int, len(log))
	join := func(dst, src []int) {
		for i := range src {
			if src[i] > dst[i] {
				dst[i] = src[i]
			}
		}
	}
	for i, e := range log {
		c := make([]int, ng)
		join(c, gclk[e.G])
		two := e.Kind == "xfer"
		if two {
			join(c, gclk[e.G2])
		}
		objs := []string{}
		switch e.Kind {
		case "write", "read":
			for _, n := range strings.Split(e.Ch, ",") {
				objs = append(objs, "var:"+n)
			}
		case "go", "panic":
		default:
			objs = append(objs, e.Ch)
		}
		for _, o := range objs {
			if oc, ok := oclk[o]; ok {
				join(c, oc)
			}
		}
		c[e.G]++
		if two {
			c[e.G2]++
		}
		clk[i] = c
		gclk[e.G] = append([]int{}, c...)
		if two {
			gclk[e.G2] = append([]int{}, c...)
		}
		if e.Kind == "go" {
			gclk[e.G2] = append([]int{}, c...)
		}
		for _, o := range objs {
			oclk[o] = c
		}
	}
	hb = func(a, b int) bool { return a != b && clk[b][log[a].G] >= clk[a][log[a].G] }
	return clk, hb
}

// CheckLogC19 checks on the step log: every output is closed exactly once, and that close happens
// after (in the happens-before order) the close of every input and after every item was taken out of
// the inputs.
func CheckLogC19(c Config, log []vsched.Event) []string {
	var bad []string
	_, hb := clocks(log)
	outs := outputsOf(c, log)
	isOut := map[string]bool{}
	for _, o := range outs {
		isOut[o] = true
	}
	var inEvents []int
	inClosed := map[string]bool{}
	for i, e := range log {
		if isInput(e.Ch) && (e.Kind == "close" || e.Kind == "recv" || e.Kind == "xfer") {
			inEvents = append(inEvents, i)
			if e.Kind == "close" {
				inClosed[e.Ch] = true
			}
		}
	}
	total := 0
	for _, it := range c.Items {
		total += len(it)
	}
	closes := map[string]int{}
	for i, e := range log {
		if e.Kind != "close" || !isOut[e.Ch] {
			continue
		}
		closes[e.Ch]++
		nIn := len(c.Items) - len(c.Nils) // nil arguments are never closed (nor received from)
		if len(inClosed) != nIn || len(inEvents) != nIn+total {
			bad = append(bad, fmt.Sprintf("%s closed although only %d of %d inputs were ever closed / %d of %d items taken",
				e.Ch, len(inClosed), nIn, len(inEvents)-len(inClosed), total))
			continue
		}
		for _, j := range inEvents {
			if !hb(j, i) {
				bad = append(bad, fmt.Sprintf("close of %s is not ordered after %s", e.Ch, log[j].String()))
				break
			}
		}
	}
	for _, o := range outs {
		if closes[o] != 1 {
			bad = append(bad, fmt.Sprintf("%s closed %d times", o, closes[o]))
		}
	}
	return bad
}

// CheckDo checks the clauses of C20 on the outcome and the step log.
func CheckDo(c Config, o *Outcome, log []vsched.Event) []string {
	var bad []string
	bad = append(bad, o.Extra...)
	if !o.DoRet {
		return append(bad, "Do did not return")
	}
	for i, v := range o.DoVals {
		if v != DoVal(i) {
			bad = append(bad, fmt.Sprintf("result %d is %d, function %d returned %d", i, v, i, DoVal(i)))
		}
	}
	anyErr := false
	member := false
	for _, e := range c.Errs {
		if e != 0 {
			anyErr = true
			if e == o.DoErr {
				member = true
			}
		}
	}
	if !anyErr && o.DoErr != 0 {
		bad = append(bad, fmt.Sprintf("all functions succeeded but Do returned error %d", o.DoErr))
	}
	if anyErr && !member {
		bad = append(bad, fmt.Sprintf("functions failed with %v but Do returned error %d", c.Errs, o.DoErr))
	}
	if log != nil {
		spawned, written := 0, 0
		firstRecv := true
		for _, e := range log {
			switch {
			case e.Kind == "go" && strings.HasPrefix(e.Site2, "do#"):
				spawned++
			case e.Kind == "xfer" && e.Ch == "do.errChan":
				if firstRecv && spawned < c.N {
					bad = append(bad, fmt.Sprintf("main received on errChan after only %d of %d functions were started", spawned, c.N))
				}
				firstRecv = false
			case e.Kind == "write":
				written++
			case e.Kind == "read":
				if written < c.N {
					bad = append(bad, fmt.Sprintf("Do read its results after only %d of %d workers had written", written, c.N))
				}
			}
		}
	}
	return bad
}

// MutateNote names the witness class of a failure on a configuration whose caller reuses its list.
func MutateNote(c Config, bad []string) []string {
	if c.Mutate && len(bad) > 0 {
		bad = append(bad, "the caller overwrote its list right after the call: the join still read the list after it returned (witness class joinsc-list-read-after-return)")
	}
	return bad
}
