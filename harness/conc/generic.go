package conc

import (
	"math/rand"
	"strconv"
	"sync"

	"verifharness/vsched"
)

// The channel scenarios are generic in the ELEMENT TYPE of the streams: int (the original fixed packages) and two
// interface types (package concpkgi: `error` for the three join forms and pipeline, `interface{}` for fmap and dup).
// A Codec maps the integer items of a Config to values of the element type and back.  For the interface types item 0 is
// the NIL value of the interface and item 1 a TYPED-NIL pointer inside a non-nil interface — items an implementation
// that goes through reflection / type assertions can lose.

// Codec between Config items and stream values.
type Codec[T any] struct {
	Enc func(int) T
	Dec func(T) int
	Idx func(int) T // pipeline: the i-th item of channel b (never one of the special items)
}

// ItemErr is an ordinary item of an interface-typed stream.
type ItemErr int

func (e ItemErr) Error() string { return "item" + strconv.Itoa(int(e)) }
func (e ItemErr) VTag() int     { return int(e) }

// PtrErr: (*PtrErr)(nil) stored in an interface is item 1.
type PtrErr struct{ N int }

func (e *PtrErr) Error() string { return "ptrerr" }
func (e *PtrErr) VTag() int     { return NilPtrItem }

// The special items of interface-typed streams.
const (
	NilItem    = 0 // the nil interface value
	NilPtrItem = 1 // a typed nil pointer in a non-nil interface
)

func decAny(v any) int {
	switch t := v.(type) {
	case nil:
		return NilItem
	case *PtrErr:
		if t == nil {
			return NilPtrItem
		}
	case ItemErr:
		return int(t)
	}
	return -1
}

// IntCodec, ErrCodec and AnyCodec are the three element types in use.
var (
	IntCodec = Codec[int]{Enc: func(v int) int { return v }, Dec: func(v int) int { return v }, Idx: func(v int) int { return v }}
	ErrCodec = Codec[error]{
		Enc: func(v int) error {
			switch v {
			case NilItem:
				return nil
			case NilPtrItem:
				return (*PtrErr)(nil)
			}
			return ItemErr(v)
		},
		Dec: func(e error) int { return decAny(e) },
		Idx: func(v int) error { return ItemErr(v) },
	}
	AnyCodec = Codec[any]{
		Enc: func(v int) any {
			switch v {
			case NilItem:
				return nil
			case NilPtrItem:
				return (*PtrErr)(nil)
			}
			return ItemErr(v)
		},
		Dec: decAny,
		Idx: func(v int) any { return ItemErr(v) },
	}
)

// IsIface reports whether the wrapper works on interface-typed streams (package concpkgi).
func IsIface(variant string) bool {
	switch variant {
	case "FmapA", "DupA", "JoinCCe", "JoinSCe", "JoinV2e", "PipelineE":
		return true
	}
	return false
}

// ---------------------------------------------------------------- virtual scheduler

// VOps are the rewritten wrappers over streams of element type T (nil where the package has none).
type VOps[T any] struct {
	Fmap     func(f func(T) T, in *vsched.Chan[T]) *vsched.Chan[T]
	Dup      func(c *vsched.Chan[T]) (*vsched.Chan[T], *vsched.Chan[T])
	JoinCC   func(in *vsched.Chan[*vsched.Chan[T]]) *vsched.Chan[T]
	JoinSC   func(in []*vsched.Chan[T]) *vsched.Chan[T]
	JoinV    func(cs []*vsched.Chan[T]) *vsched.Chan[T]
	Pipeline func(f func(int) *vsched.Chan[T], g func(T) *vsched.Chan[T]) func(int) *vsched.Chan[T]
}

func producerT[T any](ch *vsched.Chan[T], items []int, enc func(int) T) func() {
	return func() {
		for _, v := range items {
			ch.Send(enc(v))
		}
		ch.Close()
	}
}

func consumerT[T any](out *vsched.Chan[T], o *Outcome, k int, dec func(T) int) func() {
	return func() {
		for {
			v, ok := out.Recv()
			if !ok {
				o.SawClose[k] = true
				return
			}
			o.Got[k] = append(o.Got[k], dec(v))
		}
	}
}

// vChanBody is the body of virtual goroutine 0 for the channel systems over element type T.
func vChanBody[T any](ops VOps[T], cd Codec[T], c Config, o *Outcome) func() {
	mkIns := func() []*vsched.Chan[T] {
		ins := make([]*vsched.Chan[T], len(c.Items))
		for i := range ins {
			name := "in" + strconv.Itoa(i)
			if c.Sys == "fmap" || c.Sys == "dup" {
				name = "in"
			}
			if c.IsNil(i) {
				continue // a nil channel argument: no channel, no producer
			}
			ins[i] = vsched.Make[T](name, c.Caps[i]).SetTag(i)
			if !c.RoundRobin {
				vsched.Spawn("prod"+strconv.Itoa(i), producerT(ins[i], c.Items[i], cd.Enc))
			}
		}
		if c.RoundRobin {
			vsched.Spawn("rr", func() {
				for j := 0; ; j++ {
					any := false
					for k := range ins {
						i := k
						if c.RRDesc {
							i = len(ins) - 1 - k
						}
						if j < len(c.Items[i]) {
							ins[i].Send(cd.Enc(c.Items[i][j]))
							any = true
						}
					}
					if !any {
						break
					}
				}
				for i := range ins {
					ins[i].Close()
				}
			})
		}
		return ins
	}
	positions := func(ins []*vsched.Chan[T]) []*vsched.Chan[T] {
		if c.Slice == nil {
			return ins
		}
		sl := make([]*vsched.Chan[T], len(c.Slice))
		for p, j := range c.Slice {
			sl[p] = ins[j]
		}
		return sl
	}
	switch c.Sys {
	case "fmap":
		if ops.Fmap == nil {
			return nil
		}
		if c.LockStep {
			return func() {
				in := vsched.Make[T]("in", c.Caps[0]).SetTag(0)
				ack := vsched.Make[int]("ack", 0)
				vsched.Spawn("prod0", func() {
					for _, v := range c.Items[0] {
						in.Send(cd.Enc(v))
						ack.Recv() // the consumer has the result of this item
					}
					in.Close()
				})
				out := ops.Fmap(func(x T) T { return cd.Enc(F(cd.Dec(x))) }, in)
				vsched.Spawn("cons0", func() {
					for {
						v, ok := out.Recv()
						if !ok {
							o.SawClose[0] = true
							return
						}
						o.Got[0] = append(o.Got[0], cd.Dec(v))
						ack.Send(0)
					}
				})
			}
		}
		return func() {
			ins := mkIns()
			out := ops.Fmap(func(x T) T { return cd.Enc(F(cd.Dec(x))) }, ins[0])
			vsched.Spawn("cons0", consumerT(out, o, 0, cd.Dec))
		}
	case "dup":
		if ops.Dup == nil {
			return nil
		}
		return func() {
			ins := mkIns()
			o1, o2 := ops.Dup(ins[0])
			vsched.Spawn("cons0", consumerT(o1, o, 0, cd.Dec))
			vsched.Spawn("cons1", consumerT(o2, o, 1, cd.Dec))
		}
	case "joincc":
		if ops.JoinCC == nil {
			return nil
		}
		return func() {
			ins := mkIns()
			outer := vsched.Make[*vsched.Chan[T]]("outer", c.OCap)
			seq := positions(ins)
			vsched.Spawn("oprod", func() {
				for _, ch := range seq {
					outer.Send(ch)
				}
				outer.Close()
			})
			out := ops.JoinCC(outer)
			vsched.Spawn("cons0", consumerT(out, o, 0, cd.Dec))
		}
	case "joinsc":
		if ops.JoinSC == nil {
			return nil
		}
		return func() {
			ins := mkIns()
			if c.NilSlice && len(ins) == 0 {
				ins = nil
			}
			sl := positions(ins)
			if c.Mutate && c.Slice == nil {
				sl = append([]*vsched.Chan[T]{}, ins...) // the caller's own list
			}
			out := ops.JoinSC(sl)
			if c.Mutate { // the caller reuses its list at once
				for k := range sl {
					sl[k] = nil
				}
			}
			vsched.Spawn("cons0", consumerT(out, o, 0, cd.Dec))
		}
	case "joinsel":
		if ops.JoinV == nil || len(c.Items) != SelArity(c.Variant) {
			return nil
		}
		return func() {
			ins := mkIns()
			out := ops.JoinV(ins)
			vsched.Spawn("cons0", consumerT(out, o, 0, cd.Dec))
		}
	case "pipeline":
		if ops.Pipeline == nil {
			return nil
		}
		return func() {
			f := func(a int) *vsched.Chan[T] {
				b := vsched.Make[T]("b", c.OCap)
				idx := make([]int, len(c.Items))
				for i := range idx {
					idx[i] = i
				}
				vsched.Spawn("bprod", producerT(b, idx, cd.Idx))
				return b
			}
			g := func(xv T) *vsched.Chan[T] {
				x := cd.Dec(xv)
				ch := vsched.Make[T]("in"+strconv.Itoa(x), c.Caps[x]).SetTag(x)
				vsched.Spawn("prod"+strconv.Itoa(x), producerT(ch, c.Items[x], cd.Enc))
				return ch
			}
			out := ops.Pipeline(f, g)(0)
			vsched.Spawn("cons0", consumerT(out, o, 0, cd.Dec))
		}
	}
	return nil
}

// ---------------------------------------------------------------- real runtime

// ROps are the unrewritten wrappers over streams of element type T.
type ROps[T any] struct {
	Fmap     func(f func(T) T, in <-chan T) <-chan T
	Dup      func(c chan T) (<-chan T, <-chan T)
	JoinCC   func(in chan (<-chan T)) <-chan T
	JoinSC   func(in []chan T) <-chan T
	JoinV    func(cs []chan T) <-chan T
	Pipeline func(f func(int) <-chan T, g func(T) <-chan T) func(int) <-chan T
	// the same with bidirectional inner channels / stage results (nil unless that variant is exercised)
	JoinCCbb  func(in chan (chan T)) <-chan T
	PipelineB func(f func(int) chan T, g func(T) chan T) func(int) <-chan T
}

func rproducerT[T any](ch chan T, items []int, enc func(int) T, seed int64) {
	r := rand.New(rand.NewSource(seed))
	for _, v := range items {
		jitter(r)
		ch <- enc(v)
	}
	jitter(r)
	close(ch)
}

// rChanRun starts the environment and the emitted function for a channel system over element type T on the real
// runtime; the consumers register with wg.  false = no such wrapper.
func rChanRun[T any](ops ROps[T], cd Codec[T], c Config, r *rand.Rand, o *Outcome, wg *sync.WaitGroup) bool {
	consume := func(k int, out <-chan T) {
		wg.Add(1)
		seed := r.Int63()
		go func() {
			defer wg.Done()
			jr := rand.New(rand.NewSource(seed))
			for v := range out {
				o.Got[k] = append(o.Got[k], cd.Dec(v))
				jitter(jr)
			}
			o.SawClose[k] = true
		}()
	}
	mkIns := func() []chan T {
		ins := make([]chan T, len(c.Items))
		for i := range ins {
			if c.IsNil(i) {
				continue // a nil channel argument
			}
			ins[i] = make(chan T, c.Caps[i])
			items := c.Items[i]
			if c.Prefill && (c.Sys == "fmap" || c.Sys == "dup") {
				// as much as fits is already in the channel before the call; closed at once when that is everything
				k := len(items)
				if k > c.Caps[i] {
					k = c.Caps[i]
				}
				for _, v := range items[:k] {
					ins[i] <- cd.Enc(v)
				}
				items = items[k:]
				if len(items) == 0 {
					close(ins[i])
					continue
				}
			}
			if !c.RoundRobin {
				go rproducerT(ins[i], items, cd.Enc, r.Int63())
			}
		}
		if c.RoundRobin {
			seed := r.Int63()
			go func() {
				jr := rand.New(rand.NewSource(seed))
				for j := 0; ; j++ {
					any := false
					for k := range ins {
						i := k
						if c.RRDesc {
							i = len(ins) - 1 - k
						}
						if j < len(c.Items[i]) {
							jitter(jr)
							ins[i] <- cd.Enc(c.Items[i][j])
							any = true
						}
					}
					if !any {
						break
					}
				}
				for i := range ins {
					close(ins[i])
				}
			}()
		}
		return ins
	}
	// prefilled inner channel i: buffered, all items already in it; even ones closed, odd ones closed later
	prefilled := func(i int) chan T {
		n := len(c.Items[i])
		if c.Caps[i] > n {
			n = c.Caps[i]
		}
		ch := make(chan T, n)
		for _, v := range c.Items[i] {
			ch <- cd.Enc(v)
		}
		if i%2 == 0 {
			close(ch)
		} else {
			seed := r.Int63()
			go func() { jitter(rand.New(rand.NewSource(seed))); close(ch) }()
		}
		return ch
	}
	positions := func(ins []chan T) []chan T {
		if c.Slice == nil {
			return ins
		}
		sl := make([]chan T, len(c.Slice))
		for p, j := range c.Slice {
			sl[p] = ins[j]
		}
		return sl
	}
	switch c.Sys {
	case "fmap":
		if ops.Fmap == nil {
			return false
		}
		if c.LockStep {
			in := make(chan T, c.Caps[0])
			ack := make(chan int)
			go func() {
				for _, v := range c.Items[0] {
					in <- cd.Enc(v)
					<-ack
				}
				close(in)
			}()
			out := ops.Fmap(func(x T) T { return cd.Enc(F(cd.Dec(x))) }, in)
			wg.Add(1)
			go func() {
				defer wg.Done()
				for v := range out {
					o.Got[0] = append(o.Got[0], cd.Dec(v))
					ack <- 0
				}
				o.SawClose[0] = true
			}()
			break
		}
		ins := mkIns()
		consume(0, ops.Fmap(func(x T) T { return cd.Enc(F(cd.Dec(x))) }, ins[0]))
	case "dup":
		if ops.Dup == nil {
			return false
		}
		ins := mkIns()
		o1, o2 := ops.Dup(ins[0])
		consume(0, o1)
		consume(1, o2)
	case "joincc":
		if ops.JoinCCbb != nil { // outer channel of BIDIRECTIONAL channels
			var seq []chan T
			n := c.OCap
			if c.Prefill {
				for i := range c.Items {
					seq = append(seq, prefilled(i))
				}
				n = len(seq)
			} else {
				seq = positions(mkIns())
			}
			outer := make(chan (chan T), n)
			if c.Prefill {
				for _, ch := range seq {
					outer <- ch
				}
				close(outer)
			} else {
				seed := r.Int63()
				go func() {
					jr := rand.New(rand.NewSource(seed))
					for _, ch := range seq {
						jitter(jr)
						outer <- ch
					}
					close(outer)
				}()
			}
			consume(0, ops.JoinCCbb(outer))
			break
		}
		if ops.JoinCC == nil {
			return false
		}
		if c.Prefill {
			outer := make(chan (<-chan T), len(c.Items))
			for i := range c.Items {
				outer <- prefilled(i)
			}
			close(outer)
			consume(0, ops.JoinCC(outer))
			break
		}
		ins := mkIns()
		outer := make(chan (<-chan T), c.OCap)
		seed := r.Int63()
		seq := positions(ins)
		go func() {
			jr := rand.New(rand.NewSource(seed))
			for _, ch := range seq {
				jitter(jr)
				outer <- ch
			}
			close(outer)
		}()
		consume(0, ops.JoinCC(outer))
	case "joinsc":
		if ops.JoinSC == nil {
			return false
		}
		ins := mkIns()
		if c.NilSlice && len(ins) == 0 {
			ins = nil
		}
		sl := positions(ins)
		if c.Mutate && c.Slice == nil {
			sl = append([]chan T{}, ins...)
		}
		out := ops.JoinSC(sl)
		if c.Mutate { // the caller reuses its list at once (a join that still reads it races with this write)
			for k := range sl {
				sl[k] = nil
			}
		}
		consume(0, out)
	case "joinsel":
		if ops.JoinV == nil {
			return false
		}
		consume(0, ops.JoinV(mkIns()))
	case "pipeline":
		if ops.Pipeline == nil && ops.PipelineB == nil {
			return false
		}
		pipe := func(f func(int) chan T, g func(T) chan T) <-chan T {
			if ops.PipelineB != nil {
				return ops.PipelineB(f, g)(0)
			}
			return ops.Pipeline(func(a int) <-chan T { return f(a) }, func(x T) <-chan T { return g(x) })(0)
		}
		if c.Prefill {
			pre := make([]chan T, len(c.Items))
			for i := range pre {
				pre[i] = prefilled(i)
			}
			f := func(a int) chan T {
				b := make(chan T, len(c.Items))
				for i := range c.Items {
					b <- cd.Idx(i)
				}
				close(b)
				return b
			}
			g := func(x T) chan T { return pre[cd.Dec(x)] }
			consume(0, pipe(f, g))
			break
		}
		f := func(a int) chan T {
			b := make(chan T, c.OCap)
			idx := make([]int, len(c.Items))
			for i := range idx {
				idx[i] = i
			}
			go rproducerT(b, idx, cd.Idx, int64(len(idx))+1)
			return b
		}
		seeds := make([]int64, len(c.Items))
		for i := range seeds {
			seeds[i] = r.Int63()
		}
		g := func(xv T) chan T { // called by the stage-1 goroutine of the emitted code
			x := cd.Dec(xv)
			ch := make(chan T, c.Caps[x])
			go rproducerT(ch, c.Items[x], cd.Enc, seeds[x])
			return ch
		}
		consume(0, pipe(f, g))
	default:
		return false
	}
	return true
}
