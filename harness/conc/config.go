// Package conc holds the scenarios of the C19/C20 ties: configurations (number of inputs, items,
// capacities, failing subsets, rendezvous), the environment (producers, consumers, user functions) on
// the virtual scheduler and on the real runtime, and the direct checks of the properties' observable
// clauses on every execution.
package conc

import (
	"encoding/json"
	"fmt"
	"math/rand"
	"strconv"
	"strings"
)

// Config is one configuration of one system.
type Config struct {
	Sys     string  `json:"sys"`     // fmap dup joincc joinsc joinsel pipeline do
	Variant string  `json:"variant"` // wrapper of the fixed package that is exercised
	Caps    []int   `json:"caps,omitempty"`
	Items   [][]int `json:"items,omitempty"`
	OCap    int     `json:"ocap,omitempty"` // outer channel (joincc) / channel b (pipeline)
	// joinsc with zero inputs: pass a nil slice instead of an empty non-nil one (same LTS configuration
	// n = 0: the output must still be a fresh channel that is closed at once)
	NilSlice bool `json:"nil_slice,omitempty"`
	// joincc / pipeline on the real runtime: everything is in place BEFORE the emitted function is called —
	// the outer channel (channel b) is buffered, filled and closed, the inner channels are buffered and
	// pre-filled, every other one already closed, the rest closed later by a goroutine.  (On the virtual
	// scheduler this is just one of the explored schedules: the producers run first; the field is ignored.)
	Prefill bool `json:"prefill,omitempty"`
	// joinsc / joincc: the slice handed to the emitted function (the sequence sent on the outer channel), as
	// indices into Items/Caps — the SAME channel may occur at several positions ([0 1 0]).  nil = every channel
	// once, in order.  The emitted code listens once to a channel that is given twice (K/JoinWG: `seen`).
	Slice []int `json:"slice,omitempty"`
	// joinsc: the caller overwrites every element of its list right after the call returned (it reuses the slice).
	// The join must have read the list before it returned (F103, witness class joinsc-list-read-after-return).
	Mutate bool `json:"mutate_list,omitempty"`
	// ONE producer goroutine ("rr") feeds all inputs round-robin (item j of every input before item j+1 of any) and
	// closes them at the end: the inputs depend on each other — every one of them must be listened to for any to finish.
	RoundRobin bool `json:"round_robin,omitempty"`
	// the round-robin producer deals from the LAST input to the first (right <- x; left <- y)
	RRDesc bool `json:"rr_desc,omitempty"`
	// fmap: lock-step — the producer sends item n+1 (and closes) only after the consumer acknowledged the result of
	// item n on an unbuffered channel "ack": the result of an item must be handed over before the next item is taken.
	LockStep bool `json:"lock_step,omitempty"`
	// joinsel: channel ARGUMENTS that are nil at run time (indices; their Items are empty).  A nil argument is never
	// received from; the output must still be closed once the other inputs are drained (LTS: `Cfg.nilIn`).
	Nils []int `json:"nils,omitempty"`
	// do: two calls of the SAME generated Do are in flight at once: "nested" (function 0 itself calls the same Do with two
	// succeeding functions and checks what it gets back) or "concurrent" (a second caller goroutine calls it at the same
	// time).  Two calls are outside the single-call LTS: observable clauses only.
	Overlap string   `json:"overlap,omitempty"`
	N       int      `json:"n,omitempty"`    // do: number of functions
	Errs    []int    `json:"errs,omitempty"` // do: 0 = nil error, otherwise the error's id
	Pairs   [][2]int `json:"pairs,omitempty"`
}

// F is the user function of the fmap scenarios (the Lean driver uses the same one).
func F(x int) int { return 3*x + 1 }

// DoVal is the value function i of the do scenarios returns.
func DoVal(i int) int { return 10 + i }

// SelArity is the number of channel arguments of a select-form wrapper ("JoinV5" ↦ 5).
func SelArity(variant string) int {
	n, _ := strconv.Atoi(strings.TrimSuffix(strings.TrimPrefix(variant, "JoinV"), "e"))
	return n
}

// FmapCh scenarios: an input item v >= NilFrom makes the channel-valued function return nil; otherwise it
// returns the channel tagged v.  FCh is that function on tags (the Lean driver uses the same one).
const NilFrom = 1000

func FCh(v int) int {
	if v >= NilFrom {
		return 999999 // vsched.NilTag
	}
	return v
}

// Error codes of the do scenarios beyond the per-function ids 1..n: the cancellation family.
const (
	ErrCanceled        = 101 // context.Canceled itself
	ErrWrappedCanceled = 102 // fmt.Errorf("…: %w", context.Canceled)
	ErrDeadline        = 103 // context.DeadlineExceeded
)

// Item j of input i.
func Item(i, j int) int { return (i+1)*100 + j }

// InputOf recovers the input an item came from.
func InputOf(v int) int { return v/100 - 1 }

// withSpecials replaces items of an interface-typed configuration by the special items: the nil interface value
// (NilItem) and a typed-nil pointer in a non-nil interface (NilPtrItem).  pick(i, j) in 0..5: 0,1 ↦ nil, 2 ↦ typed nil.
func withSpecials(c Config, pick func(i, j int) int) Config {
	if !IsIface(c.Variant) {
		return c
	}
	its := make([][]int, len(c.Items))
	for i := range c.Items {
		its[i] = append([]int{}, c.Items[i]...)
		for j := range its[i] {
			switch pick(i, j) {
			case 0, 1:
				its[i][j] = NilItem
			case 2:
				its[i][j] = NilPtrItem
			}
		}
	}
	c.Items = its
	return c
}

func mkItems(counts []int) [][]int {
	out := make([][]int, len(counts))
	for i, c := range counts {
		out[i] = make([]int, c)
		for j := range out[i] {
			out[i][j] = Item(i, j)
		}
	}
	return out
}

// LeanSys is the name of the Lean transition system the configuration is replayed on.
func (c Config) LeanSys() string {
	switch c.Sys {
	case "joincc":
		return "joinwg-chan"
	case "joinsc":
		return "joinwg-slice"
	}
	return c.Sys
}

// Sexp is the configuration in the wire syntax of the Lean driver.
func (c Config) Sexp() string {
	var b strings.Builder
	if c.Sys == "do" {
		b.WriteString("(cfg (n " + strconv.Itoa(c.N) + ") (vals")
		for i := 0; i < c.N; i++ {
			b.WriteString(" " + strconv.Itoa(DoVal(i)))
		}
		b.WriteString(") (errs")
		for _, e := range c.Errs {
			b.WriteString(" " + strconv.Itoa(e))
		}
		b.WriteString(") (pairs")
		for _, p := range c.Pairs {
			fmt.Fprintf(&b, " (%d %d)", p[0], p[1])
		}
		b.WriteString("))")
		return b.String()
	}
	b.WriteString("(cfg (ocap " + strconv.Itoa(c.OCap) + ")")
	if c.Slice != nil {
		b.WriteString(" (slice")
		for _, p := range c.Slice {
			b.WriteString(" " + strconv.Itoa(p))
		}
		b.WriteString(")")
	}
	if len(c.Nils) > 0 {
		b.WriteString(" (nils")
		for _, p := range c.Nils {
			b.WriteString(" " + strconv.Itoa(p))
		}
		b.WriteString(")")
	}
	b.WriteString(" (ins")
	for i := range c.Items {
		b.WriteString(" (" + strconv.Itoa(c.Caps[i]))
		for _, v := range c.Items[i] {
			b.WriteString(" " + strconv.Itoa(v))
		}
		b.WriteString(")")
	}
	b.WriteString("))")
	return b.String()
}

// Key identifies the configuration (for counting distinct ones).
func (c Config) Key() string {
	j, _ := json.Marshal(c)
	return string(j)
}

// Variants of each system in the fixed package.
var Variants = map[string][]string{
	"fmap":     {"FmapChan", "FmapA"},
	"fmapch":   {"FmapCh"},
	"dup":      {"DupR", "DupB", "DupA"},
	"joincc":   {"JoinCC", "JoinCCb", "JoinCCbb", "JoinCCe"},
	"joinsc":   {"JoinSC", "JoinSCb", "JoinSCe"},
	"joinsel":  {"JoinV2", "JoinV3", "JoinV5", "JoinV6", "JoinV2e"},
	"pipeline": {"Pipeline", "PipelineB", "PipelineE"},
	"do":       {"Do2", "Do3", "Do4", "Do2b", "Do3b", "Do3m"},
}

// ChannelSystems are the systems of C19.
var ChannelSystems = []string{"fmap", "fmapch", "dup", "joincc", "joinsc", "joinsel", "pipeline"}

func inputsOf(sys, variant string, r *rand.Rand, maxIn int) int {
	switch sys {
	case "fmap", "dup", "fmapch":
		return 1
	case "joinsel":
		return SelArity(variant)
	case "joincc", "joinsc", "pipeline":
		return r.Intn(maxIn + 1) // 0 inputs is legal: the output is closed at once
	}
	return 0
}

// RandomConfig draws a configuration: up to maxIn inputs, up to maxItems items each, capacities 0..maxCap.
func RandomConfig(sys string, r *rand.Rand, maxIn, maxItems, maxCap int) Config {
	vs := Variants[sys]
	c := Config{Sys: sys, Variant: vs[r.Intn(len(vs))]}
	if sys == "do" {
		c.N = 2 + r.Intn(3)
		c.Variant = "Do" + strconv.Itoa(c.N)
		if c.N < 4 && r.Intn(2) == 0 {
			c.Variant += "b"
		} else if c.N == 3 && r.Intn(2) == 0 {
			c.Variant = "Do3m"
		}
		c.Errs = make([]int, c.N)
		for i := range c.Errs {
			if r.Intn(2) == 0 {
				c.Errs[i] = 1 + i
				if r.Intn(3) == 0 {
					c.Errs[i] = ErrCanceled + r.Intn(3)
				}
			}
		}
		np := r.Intn(c.N + 1)
		for k := 0; k < np; k++ {
			a, b := r.Intn(c.N), r.Intn(c.N)
			if a != b {
				c.Pairs = append(c.Pairs, [2]int{a, b})
			}
		}
		return c
	}
	n := inputsOf(sys, c.Variant, r, maxIn)
	counts := make([]int, n)
	c.Caps = make([]int, n)
	for i := range counts {
		counts[i] = r.Intn(maxItems + 1)
		c.Caps[i] = r.Intn(maxCap + 1)
	}
	c.Items = mkItems(counts)
	if sys == "joincc" || sys == "pipeline" {
		c.OCap = r.Intn(maxCap + 1)
	}
	if sys == "joinsc" && n == 0 {
		c.NilSlice = r.Intn(2) == 0
	}
	if sys == "fmapch" {
		c = FmapChItems(c, r.Intn(1<<len(c.Items[0])))
	}
	return withSpecials(c, func(i, j int) int { return r.Intn(6) })
}

// SmallConfigs enumerates every configuration of the system with exactly `inputs` inputs (fmap and
// dup always have one; joinsel has the variant with that many), every item count 0..items per input
// and every capacity 0..maxCap (also of the outer channel / channel b).
func SmallConfigs(sys string, inputs, items, maxCap int) []Config {
	var out []Config
	for _, variant := range Variants[sys] {
		n := inputs
		switch sys {
		case "fmap", "dup", "fmapch":
			n = 1
		case "joinsel":
			n = SelArity(variant)
			if n != inputs {
				continue
			}
		}
		ocaps := []int{0}
		if sys == "joincc" || sys == "pipeline" {
			ocaps = nil
			for k := 0; k <= maxCap; k++ {
				ocaps = append(ocaps, k)
			}
		}
		counts := make([]int, n)
		caps := make([]int, n)
		var rec func(i int)
		rec = func(i int) {
			if i == n {
				for _, oc := range ocaps {
					c := Config{Sys: sys, Variant: variant, OCap: oc, Caps: append([]int{}, caps...), Items: mkItems(counts)}
					c = withSpecials(c, func(i, j int) int { return (2*i + 3*j) % 4 }) // interface streams: nil, ordinary, typed nil, …
					out = append(out, c)
					if sys == "joinsc" && n == 0 { // zero inputs both as an empty slice and as a nil slice
						c.NilSlice = true
						out = append(out, c)
					}
				}
				return
			}
			for k := 0; k <= items; k++ {
				for cp := 0; cp <= maxCap; cp++ {
					counts[i], caps[i] = k, cp
					rec(i + 1)
				}
			}
		}
		rec(0)
	}
	return out
}

// DoConfigs enumerates n functions x every failing subset x the given rendezvous patterns.
func DoConfigs(n int) []Config {
	var pats [][][2]int
	pats = append(pats, nil)
	pats = append(pats, [][2]int{{0, n - 1}})
	pats = append(pats, [][2]int{{n - 1, 0}})
	ring := [][2]int{}
	for i := 0; i+1 < n; i++ {
		ring = append(ring, [2]int{i + 1, i})
	}
	pats = append(pats, ring)
	if n >= 3 {
		pats = append(pats, [][2]int{{0, 1}, {2, 1}, {2, 0}})
	}
	if n >= 4 {
		pats = append(pats, [][2]int{{0, 1}, {2, 3}, {3, 0}, {1, 2}})
	}
	variants := []string{"Do" + strconv.Itoa(n)}
	if n < 4 {
		variants = append(variants, "Do"+strconv.Itoa(n)+"b") // the Do of the package whose first Do has another arity
	}
	if n == 3 {
		variants = append(variants, "Do3m") // functions of different result types (the others are all func() (int, error))
	}
	var out []Config
	for _, variant := range variants {
		for mask := 0; mask < 1<<n; mask++ {
			for _, p := range pats {
				c := Config{Sys: "do", Variant: variant, N: n, Errs: make([]int, n), Pairs: p}
				for i := 0; i < n; i++ {
					if mask&(1<<i) != 0 {
						c.Errs[i] = 1 + i
					}
				}
				out = append(out, c)
				if mask != 0 && len(p) <= 1 {
					// the same failing subset with errors of the cancellation family only (context.Canceled, a wrapped
					// one, context.DeadlineExceeded): still errors — Do must not return nil
					cc := c
					cc.Errs = make([]int, n)
					for i := 0; i < n; i++ {
						if mask&(1<<i) != 0 {
							cc.Errs[i] = ErrCanceled + (i+mask)%3
						}
					}
					out = append(out, cc)
				}
			}
		}
	}
	return out
}

// ZeroConfigs are the "nothing at all" configurations of a channel system: zero inputs for the join
// forms that allow it (nil slice AND empty slice for the slice form; an outer channel / channel b that
// is closed without ever carrying a channel), inputs without items for fmap, dup and the select form.
func ZeroConfigs(sys string) []Config {
	switch sys {
	case "fmap", "dup", "fmapch":
		return SmallConfigs(sys, 1, 0, 2)
	case "joinsel":
		out := append(SmallConfigs(sys, 2, 0, 1), SmallConfigs(sys, 3, 0, 1)...)
		return append(out, append(SmallConfigs(sys, 5, 0, 0), SmallConfigs(sys, 6, 0, 0)...)...)
	}
	return SmallConfigs(sys, 0, 0, 2)
}

// PrefillConfigs are the "all set up before the call" configurations for the real-runtime runs.
func PrefillConfigs(sys string) []Config {
	var out []Config
	if sys == "fmap" || sys == "dup" || sys == "fmapch" {
		// one input of capacity 2..4, partly or completely filled and closed before the call
		for _, variant := range Variants[sys] {
			for cp := 2; cp <= 4; cp++ {
				for n := 1; n <= cp+1; n++ {
					c := Config{Sys: sys, Variant: variant, Caps: []int{cp}, Items: mkItems([]int{n}), Prefill: true}
					if sys == "fmapch" {
						c = FmapChItems(c, (n*5+cp)%(1<<n))
					}
					out = append(out, c)
				}
			}
		}
		return out
	}
	if sys != "joincc" && sys != "pipeline" {
		return out
	}
	for _, variant := range Variants[sys] {
		for n := 1; n <= 4; n++ {
			for items := 1; items <= 3; items++ {
				counts := make([]int, n)
				caps := make([]int, n)
				for i := range counts {
					counts[i] = 1 + (items+i)%3
					caps[i] = counts[i]
				}
				out = append(out, Config{Sys: sys, Variant: variant, OCap: n, Caps: caps, Items: mkItems(counts), Prefill: true})
			}
		}
	}
	return out
}

// FmapChItems turns the items of an fmapch configuration into the tags 0,1,2,… with every item whose
// position is in nilMask (bit j) replaced by NilFrom+j (the function returns nil for it).
func FmapChItems(c Config, nilMask int) Config {
	its := make([]int, len(c.Items[0]))
	for j := range its {
		its[j] = j
		if nilMask&(1<<j) != 0 {
			its[j] = NilFrom + j
		}
	}
	c.Items = [][]int{its}
	return c
}

// FmapChConfigs: every nil pattern for up to `items` items and capacities 0..maxCap.
func FmapChConfigs(items, maxCap int) []Config {
	var out []Config
	for n := 0; n <= items; n++ {
		for cp := 0; cp <= maxCap; cp++ {
			for mask := 0; mask < 1<<n; mask++ {
				c := Config{Sys: "fmapch", Variant: "FmapCh", Caps: []int{cp}, Items: [][]int{make([]int, n)}}
				out = append(out, FmapChItems(c, mask))
			}
		}
	}
	return out
}

// DupSliceConfigs: slice-of-channels / chan-of-chan Join given one channel twice or three times.
func DupSliceConfigs(sys string, items, maxCap int) []Config {
	var out []Config
	shapes := [][]int{{0, 0}, {0, 1, 0}, {0, 0, 1}, {1, 0, 0, 0}, {0, 1, 1, 0}}
	for _, variant := range Variants[sys] {
		for _, sl := range shapes {
			n := 0
			for _, j := range sl {
				if j+1 > n {
					n = j + 1
				}
			}
			for k := 0; k <= items; k++ {
				for cp := 0; cp <= maxCap; cp++ {
					counts, caps := make([]int, n), make([]int, n)
					for i := range counts {
						counts[i], caps[i] = k, cp
					}
					out = append(out, Config{Sys: sys, Variant: variant, OCap: cp, Caps: caps, Items: mkItems(counts), Slice: sl})
				}
			}
		}
	}
	return out
}

// Duplicated reports whether input i occurs more than once in the slice of a joinsc configuration.
func (c Config) Duplicated(i int) bool {
	n := 0
	for _, j := range c.Slice {
		if j == i {
			n++
		}
	}
	return n > 1
}

// MutateConfigs: slice-of-channels Join whose caller reuses (overwrites) the list right after the call.
func MutateConfigs() []Config {
	var out []Config
	for _, variant := range Variants["joinsc"] {
		for n := 1; n <= 3; n++ {
			for k := 1; k <= 2; k++ {
				for cp := 0; cp <= 1; cp++ {
					counts, caps := make([]int, n), make([]int, n)
					for i := range counts {
						counts[i], caps[i] = k, cp
					}
					c := Config{Sys: "joinsc", Variant: variant, Caps: caps, Items: mkItems(counts), Mutate: true}
					out = append(out, withSpecials(c, func(i, j int) int { return (2*i + 3*j) % 4 }))
				}
			}
		}
	}
	return out
}

// RRConfigs: chan-of-chan / slice Join fed by a single round-robin producer over unbuffered inputs.
func RRConfigs(sys string) []Config {
	var out []Config
	for _, variant := range Variants[sys] {
		for n := 3; n <= 5; n++ {
			for k := 1; k <= 2; k++ {
				for oc := 0; oc <= 1; oc++ {
					if sys != "joincc" && oc > 0 {
						continue
					}
					counts, caps := make([]int, n), make([]int, n)
					for i := range counts {
						counts[i] = k
					}
					out = append(out, Config{Sys: sys, Variant: variant, OCap: oc, Caps: caps, Items: mkItems(counts), RoundRobin: true})
				}
			}
		}
	}
	return out
}

// LongSliceConfigs: slice Join over MORE THAN 16 positions with one channel given twice, far apart.
func LongSliceConfigs() []Config {
	var out []Config
	for _, variant := range Variants["joinsc"] {
		for _, n := range []int{17, 20} { // distinct channels; positions = n + 1
			for _, dupAt := range []int{0, 3} {
				counts, caps := make([]int, n), make([]int, n)
				for i := range counts {
					if i == dupAt {
						counts[i] = 3
					} else if i%5 == 1 {
						counts[i] = 1
					}
				}
				sl := make([]int, 0, n+1)
				for i := 0; i < n; i++ {
					sl = append(sl, i)
				}
				sl = append(sl, dupAt) // the duplicate is the LAST position
				out = append(out, Config{Sys: "joinsc", Variant: variant, Caps: caps, Items: mkItems(counts), Slice: sl})
			}
		}
	}
	return out
}

// IsNil reports whether argument i of a joinsel configuration is a nil channel.
func (c Config) IsNil(i int) bool {
	for _, j := range c.Nils {
		if j == i {
			return true
		}
	}
	return false
}

// NilArgConfigs: the select form with every proper and improper subset of its channel arguments nil (arity 2 and 3;
// for 5 and 6 arguments: one, two and all-but-one nil), the other inputs with 0..items items, capacities 0..1.
func NilArgConfigs(items int) []Config {
	var out []Config
	for _, variant := range Variants["joinsel"] {
		n := SelArity(variant)
		var masks []int
		if n <= 3 {
			for m := 1; m < 1<<n; m++ {
				masks = append(masks, m)
			}
		} else {
			masks = []int{1, 1 << (n - 1), 3, 1<<n - 2}
		}
		for _, m := range masks {
			for k := 0; k <= items; k++ {
				for cp := 0; cp <= 1; cp++ {
					counts, caps := make([]int, n), make([]int, n)
					var nils []int
					for i := 0; i < n; i++ {
						if m&(1<<i) != 0 {
							nils = append(nils, i)
						} else {
							counts[i], caps[i] = k, cp
						}
					}
					c := Config{Sys: "joinsel", Variant: variant, Caps: caps, Items: mkItems(counts), Nils: nils}
					out = append(out, withSpecials(c, func(i, j int) int { return (2*i + 3*j) % 4 }))
				}
			}
		}
	}
	return out
}

// OverlapConfigs: two calls of one generated Do in flight at once.
func OverlapConfigs() []Config {
	var out []Config
	for _, variant := range []string{"Do2", "Do2b", "Do3", "Do3b"} {
		n := 2
		if strings.HasPrefix(variant, "Do3") {
			n = 3
		}
		for _, ov := range []string{"nested", "concurrent"} {
			for mask := 0; mask < 1<<n; mask++ {
				c := Config{Sys: "do", Variant: variant, N: n, Errs: make([]int, n), Overlap: ov}
				for i := 0; i < n; i++ {
					if mask&(1<<i) != 0 {
						c.Errs[i] = 1 + i
					}
				}
				out = append(out, c)
			}
		}
	}
	return out
}

// LockStepConfigs: fmap with a producer that waits for the consumer's acknowledgement of every result.
func LockStepConfigs() []Config {
	var out []Config
	for _, variant := range Variants["fmap"] {
		for k := 1; k <= 3; k++ {
			for cp := 0; cp <= 2; cp++ {
				c := Config{Sys: "fmap", Variant: variant, Caps: []int{cp}, Items: mkItems([]int{k}), LockStep: true}
				out = append(out, withSpecials(c, func(i, j int) int { return (2*i + 3*j) % 4 }))
			}
		}
	}
	return out
}

// DealerConfigs: the select form fed by ONE goroutine that deals the items out over the unbuffered inputs starting with
// the last channel argument.
func DealerConfigs() []Config {
	var out []Config
	for _, variant := range Variants["joinsel"] {
		n := SelArity(variant)
		for k := 1; k <= 2; k++ {
			counts := make([]int, n)
			for i := range counts {
				counts[i] = k
			}
			c := Config{Sys: "joinsel", Variant: variant, Caps: make([]int, n), Items: mkItems(counts), RoundRobin: true, RRDesc: true}
			out = append(out, c)
		}
	}
	return out
}
