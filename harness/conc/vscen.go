package conc

import (
	"context"
	"fmt"
	"strconv"
	"strings"

	"verifharness/vsched"
)

// VC is the rewritten `chan int`.
type VC = *vsched.Chan[int]

// VFuncs are the wrappers of the fixed package after rewriting onto vsched, by wrapper name.
type VFuncs struct {
	Fmap      map[string]func(f func(int) int, in VC) VC
	FmapCh    func(f func(int) VC, in VC) *vsched.Chan[VC]
	Dup       map[string]func(c VC) (VC, VC)
	JoinCC    map[string]func(in *vsched.Chan[VC]) VC
	JoinSC    map[string]func(in []VC) VC
	JoinV     map[string]func(cs []VC) VC // select form, 2, 3, 5 and 6 channels
	Pipeline  func(f func(int) VC, g func(int) VC) func(int) VC
	PipelineB func(f func(int) VC, g func(int) VC) func(int) VC // stages returning bidirectional channels
	A         VOps[any]                                         // package concpkgi: fmap and dup over interface{} streams
	E         VOps[error]                                       // package concpkgi: the join forms and pipeline over error streams
	Do2       map[string]func(f0, f1 func() (int, error)) (int, int, error)
	Do3       map[string]func(f0, f1, f2 func() (int, error)) (int, int, int, error)
	Do4       func(f0, f1, f2, f3 func() (int, error)) (int, int, int, int, error)
}

// the cancellation family of error values (Config.Errs codes 101..103)
var (
	errWrappedCanceled = fmt.Errorf("fetching: %w", context.Canceled)
	doErrValues        = map[int]error{ErrCanceled: context.Canceled, ErrWrappedCanceled: errWrappedCanceled, ErrDeadline: context.DeadlineExceeded}
)

func init() {
	vsched.ValTag = func(v any) (int, bool) {
		if e, ok := v.(error); ok {
			if c := DoErrCode(e); c > 0 {
				return c, true
			}
		}
		return 0, false
	}
}

// DoErrOf is the error value of code e (0 = nil).
func DoErrOf(e int) error {
	if e == 0 {
		return nil
	}
	if v, ok := doErrValues[e]; ok {
		return v
	}
	return DoErr(e)
}

// DoErrCode maps an error returned by Do back to its code (identity of the value, -1 = none of ours).
func DoErrCode(err error) int {
	if err == nil {
		return 0
	}
	if de, ok := err.(DoErr); ok {
		return int(de)
	}
	for c, v := range doErrValues {
		if v == err {
			return c
		}
	}
	return -1
}

// DoErr is the error type the do scenarios return; its tag is what the log shows.
type DoErr int

func (e DoErr) Error() string { return "e" + strconv.Itoa(int(e)) }
func (e DoErr) VTag() int     { return int(e) }

// Outcome is what the environment observed in one execution.
type Outcome struct {
	Got      [][]int // per output: items received in order
	SawClose []bool  // per output: the consumer observed the close
	DoVals   []int
	DoErr    int // 0 = nil, -1 = an error that no function returned
	DoRet    bool
	Extra    []string // violations seen by the second (nested / concurrent) call of an overlapping Do scenario
}

// callDoV calls the Do wrapper of the variant with n functions.
func callDoV(F *VFuncs, variant string, fs []func() (int, error)) ([]int, error) {
	v := make([]int, len(fs))
	var err error
	switch len(fs) {
	case 2:
		v[0], v[1], err = F.Do2[variant](fs[0], fs[1])
	case 3:
		v[0], v[1], v[2], err = F.Do3[variant](fs[0], fs[1], fs[2])
	case 4:
		v[0], v[1], v[2], v[3], err = F.Do4(fs[0], fs[1], fs[2], fs[3])
	}
	return v, err
}

// secondCall is the other call of an overlapping scenario: n succeeding functions with their own values; it reports
// what is wrong with the results IT gets back.
func secondCall(n int, call func(fs []func() (int, error)) ([]int, error)) []string {
	fs := make([]func() (int, error), n)
	for i := range fs {
		i := i
		fs[i] = func() (int, error) { return 500 + i, nil }
	}
	v, err := call(fs)
	var bad []string
	for i := range v {
		if v[i] != 500+i {
			bad = append(bad, fmt.Sprintf("second call of the same Do in flight: result %d is %d, its function %d returned %d", i, v[i], i, 500+i))
		}
	}
	if err != nil {
		bad = append(bad, fmt.Sprintf("second call of the same Do in flight: all its functions succeeded but it returned error %v", err))
	}
	return bad
}

// roleOf maps the emitted function names of the fixed package to the role names the Lean replay knows.
var roleOf = map[string]string{
	"deriveFmapC": "fmap", "deriveFmap": "fmap",
	"deriveDupR": "dup", "deriveDupB": "dup",
	"deriveJoinCC": "join", "deriveJoinCCb": "join", "deriveJoinSC": "join", "deriveJoinSCb": "join",
	"deriveJoinV2": "joinsel", "deriveJoinV3": "joinsel", "deriveJoinV5": "joinsel", "deriveJoinV6": "joinsel",
	"deriveDo2": "do", "deriveDo3": "do", "deriveDo4": "do", "deriveDo2b": "do", "deriveDo3b": "do", "deriveDo3m": "do",
	"deriveJoinCCbb": "join", "deriveJoinPb": "join", "deriveFmapPb": "fmap",
	"deriveFmapA": "fmap", "deriveDupA": "dup", "deriveJoinCCe": "join", "deriveJoinSCe": "join", "deriveJoinV2e": "joinsel", "deriveFmapPe": "fmap",
}

func canonName(s string) string {
	for _, sep := range []string{".", "#"} {
		if i := strings.Index(s, sep); i > 0 {
			if r, ok := roleOf[s[:i]]; ok {
				return r + s[i:]
			}
		}
	}
	return s
}

// CanonLog renames emitted function names in sites and channel names to roles.
func CanonLog(log []vsched.Event) []vsched.Event {
	out := make([]vsched.Event, len(log))
	for i, e := range log {
		e.Site, e.Site2, e.Ch = canonName(e.Site), canonName(e.Site2), canonName(e.Ch)
		out[i] = e
	}
	return out
}

// VBody returns the body of virtual goroutine 0 for the configuration: it builds the environment,
// calls the (rewritten) emitted function and starts the consumers.
func VBody(F *VFuncs, c Config, o *Outcome) (func(), error) {
	nOut := 1
	if c.Sys == "dup" {
		nOut = 2
	}
	o.Got, o.SawClose = make([][]int, nOut), make([]bool, nOut)
	mkIns := func() []VC { // fmapch only (int streams)
		ins := make([]VC, len(c.Items))
		for i := range ins {
			ins[i] = vsched.Make[int]("in", c.Caps[i]).SetTag(i)
			vsched.Spawn("prod"+strconv.Itoa(i), producerT(ins[i], c.Items[i], IntCodec.Enc))
		}
		return ins
	}
	switch c.Sys {
	case "fmap", "dup", "joincc", "joinsc", "joinsel", "pipeline":
		// generic in the element type of the streams (generic.go)
		var body func()
		switch {
		case IsIface(c.Variant) && (c.Sys == "fmap" || c.Sys == "dup"):
			body = vChanBody(F.A, AnyCodec, c, o)
		case IsIface(c.Variant):
			body = vChanBody(F.E, ErrCodec, c, o)
		default:
			pl := F.Pipeline
			if c.Variant == "PipelineB" {
				pl = F.PipelineB
			}
			body = vChanBody(VOps[int]{Fmap: F.Fmap[c.Variant], Dup: F.Dup[c.Variant], JoinCC: F.JoinCC[c.Variant],
				JoinSC: F.JoinSC[c.Variant], JoinV: F.JoinV[c.Variant], Pipeline: pl}, IntCodec, c, o)
		}
		if body != nil {
			return body, nil
		}
	case "fmapch":
		if F.FmapCh == nil {
			break
		}
		return func() {
			// the channels the function returns exist before the call (no producers: only their identity matters)
			res := map[int]VC{}
			for _, v := range c.Items[0] {
				if v < NilFrom {
					res[v] = vsched.Make[int]("r"+strconv.Itoa(v), 0).SetTag(v)
				}
			}
			ins := mkIns()
			out := F.FmapCh(func(v int) VC { return res[v] }, ins[0])
			vsched.Spawn("cons0", func() {
				for {
					ch, ok := out.Recv()
					if !ok {
						o.SawClose[0] = true
						return
					}
					o.Got[0] = append(o.Got[0], ch.VTag())
				}
			})
		}, nil
	case "do":
		return func() {
			rv := make([]VC, len(c.Pairs))
			for p := range rv {
				rv[p] = vsched.Make[int]("rv"+strconv.Itoa(p), 0)
			}
			fs := make([]func() (int, error), c.N)
			for i := 0; i < c.N; i++ {
				i := i
				fs[i] = func() (int, error) {
					for p, pr := range c.Pairs {
						if pr[0] == i {
							rv[p].Send(p)
						} else if pr[1] == i {
							rv[p].Recv()
						}
					}
					if i == 0 && c.Overlap == "nested" { // function 0 itself calls the same generated Do
						o.Extra = append(o.Extra, secondCall(c.N, func(g []func() (int, error)) ([]int, error) { return callDoV(F, c.Variant, g) })...)
					}
					return DoVal(i), DoErrOf(c.Errs[i])
				}
			}
			if c.Overlap == "concurrent" { // a second caller at the same time
				vsched.Spawn("caller1", func() {
					o.Extra = append(o.Extra, secondCall(c.N, func(g []func() (int, error)) ([]int, error) { return callDoV(F, c.Variant, g) })...)
				})
			}
			var err error
			o.DoVals, err = callDoV(F, c.Variant, fs)
			o.DoRet = true
			o.DoErr = DoErrCode(err)
		}, nil
	}
	return nil, fmt.Errorf("no scenario for %s/%s with %d inputs", c.Sys, c.Variant, len(c.Items))
}

// F3 is conc.F as a func value.
func F3(x int) int { return F(x) }

// Mixed3 adapts a Do over functions of three different result types to the uniform scenario signature.
func Mixed3(do func(func() (int, error), func() (int64, error), func() (string, error)) (int, int64, string, error),
	f0, f1, f2 func() (int, error)) (int, int, int, error) {
	v0, v1, v2, err := do(f0,
		func() (int64, error) { v, e := f1(); return int64(v), e },
		func() (string, error) { v, e := f2(); return strconv.Itoa(v), e })
	n2, _ := strconv.Atoi(v2)
	return v0, int(v1), n2, err
}
