package conc

import (
	"encoding/json"
	"flag"
	"fmt"
	"math/rand"
	"os"
	"path/filepath"
	"runtime"
	"strings"
	"sync"
	"time"
)

// RFuncs are the wrappers of the fixed package, unrewritten (real channels, real goroutines).
type RFuncs struct {
	Fmap      map[string]func(func(int) int, <-chan int) <-chan int
	FmapCh    func(func(int) <-chan int, <-chan int) <-chan (<-chan int)
	Dup       map[string]func(chan int) (<-chan int, <-chan int)
	JoinCC    map[string]func(chan (<-chan int)) <-chan int
	JoinSC    map[string]func([]chan int) <-chan int
	JoinV     map[string]func(cs []chan int) <-chan int
	Pipeline  func(f func(int) <-chan int, g func(int) <-chan int) func(int) <-chan int
	PipelineB func(f func(int) chan int, g func(int) chan int) func(int) <-chan int // bidirectional stage results (F95)
	JoinCCbb  func(in chan (chan int)) <-chan int                                   // bidirectional inner channels (F94)
	A         ROps[any]
	E         ROps[error]
	Do2       map[string]func(f0, f1 func() (int, error)) (int, int, error)
	Do3       map[string]func(f0, f1, f2 func() (int, error)) (int, int, int, error)
	Do4       func(f0, f1, f2, f3 func() (int, error)) (int, int, int, int, error)
}

func jitter(r *rand.Rand) {
	switch r.Intn(6) {
	case 0:
		runtime.Gosched()
	case 1:
		time.Sleep(time.Microsecond)
	}
}

func callDoR(F *RFuncs, variant string, fs []func() (int, error)) ([]int, error) {
	v := make([]int, len(fs))
	var err error
	switch len(fs) {
	case 2:
		v[0], v[1], err = F.Do2[variant](fs[0], fs[1])
	case 3:
		v[0], v[1], v[2], err = F.Do3[variant](fs[0], fs[1], fs[2])
	case 4:
		v[0], v[1], v[2], v[3], err = F.Do4(fs[0], fs[1], fs[2], fs[3])
	}
	return v, err
}

// RunReal executes the configuration on the real runtime and checks the observable clauses.
// The second result lists violated clauses (a timeout counts as a deadlock).
func RunReal(F *RFuncs, c Config, r *rand.Rand) (*Outcome, []string, []string) {
	o := &Outcome{}
	nOut := 1
	if c.Sys == "dup" {
		nOut = 2
	}
	o.Got, o.SawClose = make([][]int, nOut), make([]bool, nOut)
	base := runtime.NumGoroutine()
	var wg sync.WaitGroup
	var extraMu sync.Mutex
	mkIns := func() []chan int { // fmapch only (int streams)
		ins := make([]chan int, len(c.Items))
		for i := range ins {
			ins[i] = make(chan int, c.Caps[i])
			items := c.Items[i]
			if c.Prefill {
				k := len(items)
				if k > c.Caps[i] {
					k = c.Caps[i]
				}
				for _, v := range items[:k] {
					ins[i] <- v
				}
				items = items[k:]
				if len(items) == 0 {
					close(ins[i])
					continue
				}
			}
			go rproducerT(ins[i], items, IntCodec.Enc, r.Int63())
		}
		return ins
	}
	switch c.Sys {
	case "fmap", "dup", "joincc", "joinsc", "joinsel", "pipeline":
		ok := false
		switch {
		case IsIface(c.Variant) && (c.Sys == "fmap" || c.Sys == "dup"):
			ok = rChanRun(F.A, AnyCodec, c, r, o, &wg)
		case IsIface(c.Variant):
			ok = rChanRun(F.E, ErrCodec, c, r, o, &wg)
		default:
			ops := ROps[int]{Fmap: F.Fmap[c.Variant], Dup: F.Dup[c.Variant], JoinCC: F.JoinCC[c.Variant],
				JoinSC: F.JoinSC[c.Variant], JoinV: F.JoinV[c.Variant], Pipeline: F.Pipeline}
			if c.Variant == "JoinCCbb" {
				ops.JoinCCbb = F.JoinCCbb
			}
			if c.Variant == "PipelineB" {
				ops.Pipeline, ops.PipelineB = nil, F.PipelineB
			}
			ok = rChanRun(ops, IntCodec, c, r, o, &wg)
		}
		if !ok {
			return o, []string{"no wrapper " + c.Variant + " for system " + c.Sys}, nil
		}
	case "fmapch":
		res := map[int]chan int{}
		tagOf := map[<-chan int]int{nil: 999999}
		for _, v := range c.Items[0] {
			if v < NilFrom {
				res[v] = make(chan int)
				tagOf[res[v]] = v
			}
		}
		ins := mkIns()
		out := F.FmapCh(func(v int) <-chan int {
			if ch, ok := res[v]; ok {
				return ch
			}
			return nil
		}, ins[0])
		wg.Add(1)
		go func() {
			defer wg.Done()
			for ch := range out {
				o.Got[0] = append(o.Got[0], tagOf[ch])
			}
			o.SawClose[0] = true
		}()
	case "do":
		rv := make([]chan int, len(c.Pairs))
		for p := range rv {
			rv[p] = make(chan int)
		}
		fs := make([]func() (int, error), c.N)
		for i := 0; i < c.N; i++ {
			i := i
			seed := r.Int63()
			fs[i] = func() (int, error) {
				jr := rand.New(rand.NewSource(seed))
				for p, pr := range c.Pairs {
					jitter(jr)
					if pr[0] == i {
						rv[p] <- p
					} else if pr[1] == i {
						<-rv[p]
					}
				}
				if i == 0 && c.Overlap == "nested" {
					bad := secondCall(c.N, func(g []func() (int, error)) ([]int, error) { return callDoR(F, c.Variant, g) })
					extraMu.Lock()
					o.Extra = append(o.Extra, bad...)
					extraMu.Unlock()
				}
				return DoVal(i), DoErrOf(c.Errs[i])
			}
		}
		if c.Overlap == "concurrent" {
			wg.Add(1)
			go func() {
				defer wg.Done()
				bad := secondCall(c.N, func(g []func() (int, error)) ([]int, error) { return callDoR(F, c.Variant, g) })
				extraMu.Lock()
				o.Extra = append(o.Extra, bad...)
				extraMu.Unlock()
			}()
		}
		wg.Add(1)
		go func() {
			defer wg.Done()
			var err error
			o.DoVals, err = callDoR(F, c.Variant, fs)
			o.DoRet = true
			o.DoErr = DoErrCode(err)
		}()
	}
	done := make(chan struct{})
	go func() { wg.Wait(); close(done) }()
	select {
	case <-done:
	case <-time.After(10 * time.Second):
		what := "deadlock or livelock: consumers still blocked after 10 s on the real runtime"
		if c.Sys == "do" {
			what = "deadlock: Do has not returned after 10 s on the real runtime (functions that wait for one another never all run)"
		}
		return o, MutateNote(c, []string{what}), nil
	}
	var bad, pending []string
	if c.Sys == "do" {
		bad = CheckDo(c, o, nil)
	} else {
		bad, pending = CheckDelivery(c, o)
	}
	// every goroutine started by the emitted code and the environment must be gone
	leaked := true
	for i := 0; i < 4000; i++ { // up to ~3 s on a loaded machine; normally the first iteration succeeds
		if runtime.NumGoroutine() <= base {
			leaked = false
			break
		}
		if i < 50 {
			runtime.Gosched()
		} else if i < 1000 {
			time.Sleep(50 * time.Microsecond)
		} else {
			time.Sleep(time.Millisecond)
		}
	}
	if leaked {
		bad = append(bad, fmt.Sprintf("goroutines left running: %d before the call, %d afterwards", base, runtime.NumGoroutine()))
	}
	return o, MutateNote(c, bad), pending
}

// MainR is the main function of the generated program cmd/racerun (built with -race).
func MainR(F *RFuncs) {
	mode := flag.String("mode", "quick", "quick | thorough")
	seed := flag.Int64("seed", 1, "seed")
	out := flag.String("out", "", "output directory")
	systems := flag.String("systems", strings.Join(ChannelSystems, ","), "systems")
	replay := flag.String("replay", "", "replay file: run its configuration many times")
	maxsec := flag.Int("maxsec", 0, "stop after this many seconds (0 = no limit)")
	flag.Parse()
	rng := rand.New(rand.NewSource(*seed))
	start := time.Now()
	type viol struct {
		Config Config   `json:"config"`
		What   []string `json:"what"`
	}
	type stats struct {
		Executions int `json:"executions"`
		Configs    int `json:"configs"`
	}
	sum := struct {
		Systems    map[string]*stats `json:"systems"`
		Violations []viol            `json:"violations"`
		Pending    []viol            `json:"pending"`
		PendingN   int               `json:"pending_count"`
		Executions int               `json:"executions"`
		Procs      []int             `json:"gomaxprocs"`
	}{Systems: map[string]*stats{}, Procs: []int{1, 2, 4, 8}}
	cur := ""
	if *out != "" {
		os.MkdirAll(*out, 0o755)
		cur = filepath.Join(*out, "current.json")
	}
	runCfg := func(c Config, reps int) {
		if len(sum.Violations) >= 3 || (*maxsec > 0 && time.Since(start) > time.Duration(*maxsec)*time.Second) { // enough failing configurations: stop (a livelocked goroutine would slow everything down)
			return
		}
		if cur != "" {
			os.WriteFile(cur, []byte(c.Key()), 0o644)
		}
		st := sum.Systems[c.Sys]
		st.Configs++
		for i := 0; i < reps; i++ {
			runtime.GOMAXPROCS(sum.Procs[(sum.Executions+i)%len(sum.Procs)])
			_, bad, pend := RunReal(F, c, rng)
			st.Executions++
			sum.Executions++
			if len(pend) > 0 {
				sum.PendingN++
				if len(sum.Pending) < 3 {
					sum.Pending = append(sum.Pending, viol{c, pend})
				}
			}
			if len(bad) > 0 {
				if len(sum.Violations) < 10 {
					sum.Violations = append(sum.Violations, viol{c, bad})
				}
				return
			}
		}
	}
	if *replay != "" {
		data, err := os.ReadFile(*replay)
		if err != nil {
			fatal(err)
		}
		var outer struct {
			Replay *Replay `json:"replay"`
		}
		if err := json.Unmarshal(data, &outer); err != nil || outer.Replay == nil {
			fatal(fmt.Errorf("no replay object in %s", *replay))
		}
		sum.Systems[outer.Replay.Config.Sys] = &stats{}
		runCfg(outer.Replay.Config, 2000)
	} else {
		thorough := *mode == "thorough"
		for _, sys := range strings.Split(*systems, ",") {
			sum.Systems[sys] = &stats{}
			nc, reps := 150, 25
			if thorough {
				nc, reps = 1500, 40
			}
			if sys == "do" {
				for n := 2; n <= 4; n++ {
					for _, c := range DoConfigs(n) {
						runCfg(c, reps)
					}
				}
				for _, c := range OverlapConfigs() {
					runCfg(c, 2*reps)
				}
			}
			if sys == "joinsel" {
				for _, c := range NilArgConfigs(3) {
					runCfg(c, reps)
				}
				for _, c := range DealerConfigs() {
					runCfg(c, reps)
				}
			}
			if sys == "fmap" {
				for _, c := range LockStepConfigs() {
					runCfg(c, reps)
				}
			}
			if sys != "do" {
				for _, c := range ZeroConfigs(sys) {
					runCfg(c, reps)
				}
			}
			if sys != "do" {
				for _, c := range PrefillConfigs(sys) {
					runCfg(c, 4*reps)
				}
			}
			if sys == "joinsc" || sys == "joincc" {
				for _, c := range DupSliceConfigs(sys, 3, 2) {
					runCfg(c, reps)
				}
			}
			if sys == "joinsc" {
				for _, c := range MutateConfigs() {
					runCfg(c, 2*reps)
				}
				for _, c := range LongSliceConfigs() {
					runCfg(c, 4*reps)
				}
			}
			if sys == "joincc" || sys == "joinsc" {
				for _, c := range RRConfigs(sys) {
					runCfg(c, reps)
				}
			}
			for i := 0; i < nc; i++ {
				c := RandomConfig(sys, rng, 4, 5, 2)
				if (sys == "joincc" || sys == "pipeline") && len(c.Items) > 0 && rng.Intn(3) == 0 {
					c.Prefill, c.OCap = true, len(c.Items)
				}
				if (sys == "fmap" || sys == "dup" || sys == "fmapch") && rng.Intn(3) == 0 {
					c.Prefill, c.Caps[0] = true, 2+rng.Intn(3)
				}
				runCfg(c, reps)
			}
		}
	}
	js, _ := json.MarshalIndent(sum, "", " ")
	if *out != "" {
		os.WriteFile(filepath.Join(*out, "race_summary.json"), js, 0o644)
	} else {
		fmt.Println(string(js))
	}
	if len(sum.Violations) > 0 {
		os.Exit(1)
	}
}
