package rewrite

import (
	"bytes"
	"fmt"
	"go/ast"
	"go/format"
	"go/token"
	"go/types"
	"os"
	"path/filepath"
	"reflect"
	"strconv"
)

// RewriteTo maps every file of the package onto verifharness/vsched and writes the result to outDir
// (same file names, same package name):
//
//	chan T / <-chan T / chan<- T      → *vsched.Chan[T]
//	make(chan T, n)                   → vsched.Make[T]("<func>.<var>", n)
//	go func() { … }()                 → vsched.Go("<func>#<k>", func() { … })      k-th go statement of <func>
//	go func(p T) { … }(a)             → { _g := a; vsched.Go("<func>#<k>", func() { var p T = _g; … }) }
//	go f(a)                           → { _g0 := f; _g1 := a; vsched.Go("<func>#<k>", func() { _g0(_g1) }) }
//	ch <- v                           → ch.Send(v)
//	<-ch ; v, ok := <-ch              → ch.Recv1() ; v, ok := ch.Recv()
//	for x := range ch { … }           → for x, ok := ch.Recv(); ok; x, ok = ch.Recv() { … }
//	close(ch) ; cap(ch) ; len(ch)     → ch.Close() ; ch.Cap() ; ch.Len()
//	sync.WaitGroup{}                  → vsched.WaitGroup{Name: "<func>.<var>"}
//	select { case v, ok := <-c: … }   → c.RecvCase() … switch vsched.Select(…) { case 0: v, ok := _c0.Val, _c0.Ok … }
//	select { …; default: … }          → switch vsched.SelectDefault(…) { …; default: … }
//	x = … inside a go literal, x declared outside it  → … ; vsched.Write("x")
//	return … x … (outside go literals, x written by a goroutine) → vsched.Read("x"); return …
//
// Anything the rewriter does not know how to map (send cases in select, go on a builtin,
// range over a channel with `=`) is an error: the check then reports that the correspondence could
// not be established instead of silently skipping code.
func (p *Pkg) RewriteTo(outDir string) error {
	if err := os.MkdirAll(outDir, 0o755); err != nil {
		return err
	}
	for i, f := range p.Files {
		k := &rw{p: p}
		k.file(f)
		if k.err != nil {
			return k.err
		}
		var buf bytes.Buffer
		if err := format.Node(&buf, token.NewFileSet(), f); err != nil {
			return fmt.Errorf("printing rewritten %s: %v", p.Names[i], err)
		}
		if err := os.WriteFile(filepath.Join(outDir, p.Names[i]), buf.Bytes(), 0o644); err != nil {
			return err
		}
	}
	return nil
}

type rw struct {
	p        *Pkg
	fn       string
	goCount  int
	tmpCount int
	inGo     int
	ctxName  string
	captured map[types.Object]bool
	usesSync bool
	err      error
}

func (k *rw) fail(n ast.Node, what string) {
	if k.err == nil {
		k.err = fmt.Errorf("%s: cannot map onto vsched: %s", k.p.Fset.Position(n.Pos()), what)
	}
}

func vs(name string) ast.Expr {
	return &ast.SelectorExpr{X: ast.NewIdent("vsched"), Sel: ast.NewIdent(name)}
}

func strLit(s string) ast.Expr { return &ast.BasicLit{Kind: token.STRING, Value: strconv.Quote(s)} }

func method(x ast.Expr, name string, args ...ast.Expr) *ast.CallExpr {
	return &ast.CallExpr{Fun: &ast.SelectorExpr{X: x, Sel: ast.NewIdent(name)}, Args: args}
}

func (k *rw) file(f *ast.File) {
	f.Comments = nil
	f.Doc = nil
	for _, d := range f.Decls {
		switch d := d.(type) {
		case *ast.FuncDecl:
			d.Doc = nil
			k.fn, k.goCount, k.inGo = d.Name.Name, 0, 0
			k.captured = map[types.Object]bool{}
			if d.Body != nil {
				k.findCaptured(d.Body, nil)
			}
			k.funcType(d.Type)
			if d.Recv != nil {
				k.fieldList(d.Recv)
			}
			if d.Body != nil {
				d.Body.List = k.stmtList(d.Body.List)
			}
		case *ast.GenDecl:
			d.Doc = nil
			k.fn = "pkg"
			k.genDecl(d)
		}
	}
	// imports: add vsched, drop sync when nothing refers to it any more
	k.usesSync = false
	ast.Inspect(f, func(n ast.Node) bool {
		if se, ok := n.(*ast.SelectorExpr); ok {
			if id, ok := se.X.(*ast.Ident); ok && id.Name == "sync" {
				k.usesSync = true
			}
		}
		return true
	})
	var specs []ast.Spec
	specs = append(specs, &ast.ImportSpec{Path: &ast.BasicLit{Kind: token.STRING, Value: strconv.Quote("verifharness/vsched")}})
	var decls []ast.Decl
	for _, d := range f.Decls {
		if gd, ok := d.(*ast.GenDecl); ok && gd.Tok == token.IMPORT {
			for _, s := range gd.Specs {
				is := s.(*ast.ImportSpec)
				if is.Path.Value == strconv.Quote("sync") && !k.usesSync {
					continue
				}
				is.Doc, is.Comment = nil, nil
				specs = append(specs, is)
			}
			continue
		}
		decls = append(decls, d)
	}
	imp := &ast.GenDecl{Tok: token.IMPORT, Lparen: 1, Specs: specs, Rparen: 1}
	f.Decls = append([]ast.Decl{imp}, decls...)
	f.Imports = nil
}

// findCaptured collects the variables assigned (with =) inside a go literal but declared outside it.
func (k *rw) findCaptured(n ast.Node, lit *ast.FuncLit) {
	ast.Inspect(n, func(m ast.Node) bool {
		switch m := m.(type) {
		case *ast.GoStmt:
			if fl, ok := m.Call.Fun.(*ast.FuncLit); ok {
				k.findCaptured(fl.Body, fl)
				return false
			}
		case *ast.AssignStmt:
			if lit != nil && m.Tok == token.ASSIGN {
				for _, l := range m.Lhs {
					if id, ok := l.(*ast.Ident); ok {
						if obj, ok := k.p.Info.Uses[id].(*types.Var); ok && !obj.IsField() {
							if obj.Pos() < lit.Pos() || obj.Pos() >= lit.End() {
								k.captured[obj] = true
							}
						}
					}
				}
			}
		}
		return true
	})
}

func (k *rw) capturedNames(es []ast.Expr, onlyTop bool) []string {
	var names []string
	seen := map[string]bool{}
	for _, e := range es {
		visit := func(id *ast.Ident) {
			if obj := k.p.Info.Uses[id]; obj != nil && k.captured[obj] && !seen[id.Name] {
				seen[id.Name] = true
				names = append(names, id.Name)
			}
		}
		if onlyTop {
			if id, ok := e.(*ast.Ident); ok {
				visit(id)
			}
			continue
		}
		ast.Inspect(e, func(n ast.Node) bool {
			if id, ok := n.(*ast.Ident); ok {
				visit(id)
			}
			return true
		})
	}
	return names
}

func (k *rw) funcType(t *ast.FuncType) {
	if t.Params != nil {
		k.fieldList(t.Params)
	}
	if t.Results != nil {
		k.fieldList(t.Results)
	}
}

func (k *rw) fieldList(fl *ast.FieldList) {
	for _, f := range fl.List {
		f.Doc, f.Comment = nil, nil
		f.Type = k.expr(f.Type)
	}
}

func (k *rw) genDecl(d *ast.GenDecl) {
	for _, s := range d.Specs {
		switch s := s.(type) {
		case *ast.ValueSpec:
			s.Doc, s.Comment = nil, nil
			if s.Type != nil {
				s.Type = k.expr(s.Type)
			}
			for i := range s.Values {
				if len(s.Names) == len(s.Values) {
					k.ctxName = k.fn + "." + s.Names[i].Name
				}
				s.Values[i] = k.expr(s.Values[i])
				k.ctxName = ""
			}
		case *ast.TypeSpec:
			s.Doc, s.Comment = nil, nil
			s.Type = k.expr(s.Type)
		}
	}
}

func (k *rw) stmtList(l []ast.Stmt) []ast.Stmt {
	var out []ast.Stmt
	for _, s := range l {
		var pre, post []ast.Stmt
		switch s := s.(type) {
		case *ast.AssignStmt:
			if k.inGo > 0 && s.Tok == token.ASSIGN {
				if names := k.capturedNames(s.Lhs, true); len(names) > 0 {
					post = append(post, &ast.ExprStmt{X: &ast.CallExpr{Fun: vs("Write"), Args: lits(names)}})
				}
			}
		case *ast.ReturnStmt:
			if k.inGo == 0 {
				if names := k.capturedNames(s.Results, false); len(names) > 0 {
					pre = append(pre, &ast.ExprStmt{X: &ast.CallExpr{Fun: vs("Read"), Args: lits(names)}})
				}
			}
		}
		out = append(out, pre...)
		out = append(out, k.stmt(s))
		out = append(out, post...)
	}
	return out
}

func lits(names []string) []ast.Expr {
	var r []ast.Expr
	for _, n := range names {
		r = append(r, strLit(n))
	}
	return r
}

func (k *rw) tmp(prefix string) string {
	k.tmpCount++
	return "_" + prefix + strconv.Itoa(k.tmpCount)
}

func (k *rw) stmt(s ast.Stmt) ast.Stmt {
	switch s := s.(type) {
	case nil:
		return nil
	case *ast.SendStmt:
		return &ast.ExprStmt{X: method(k.expr(s.Chan), "Send", k.expr(s.Value))}
	case *ast.GoStmt:
		fl, ok := s.Call.Fun.(*ast.FuncLit)
		if !ok {
			// go f(a1, …) on a function VALUE: Go evaluates f and the arguments in the spawning goroutine
			// (an argument that is itself a call runs there, before anything is started):
			//   { _g0 := f; _g1 := a1; …; vsched.Go(site, func() { _g0(_g1, …) }) }
			if _, isBuiltin := k.p.Info.Uses[identOf(s.Call.Fun)].(*types.Builtin); isBuiltin {
				k.fail(s, "go statement on a builtin")
				return s
			}
			var pre []ast.Stmt
			fv := ast.NewIdent(k.tmp("g"))
			pre = append(pre, &ast.AssignStmt{Lhs: []ast.Expr{fv}, Tok: token.DEFINE, Rhs: []ast.Expr{k.expr(s.Call.Fun)}})
			call := &ast.CallExpr{Fun: fv, Ellipsis: s.Call.Ellipsis}
			for _, a := range s.Call.Args {
				tmp := ast.NewIdent(k.tmp("g"))
				pre = append(pre, &ast.AssignStmt{Lhs: []ast.Expr{tmp}, Tok: token.DEFINE, Rhs: []ast.Expr{k.expr(a)}})
				call.Args = append(call.Args, tmp)
			}
			site := k.fn + "#" + strconv.Itoa(k.goCount)
			k.goCount++
			lit := &ast.FuncLit{Type: &ast.FuncType{Params: &ast.FieldList{}}, Body: &ast.BlockStmt{List: []ast.Stmt{&ast.ExprStmt{X: call}}}}
			return &ast.BlockStmt{List: append(pre, &ast.ExprStmt{X: &ast.CallExpr{Fun: vs("Go"), Args: []ast.Expr{strLit(site), lit}}})}
		}
		if s.Call.Ellipsis.IsValid() || (fl.Type.Results != nil && len(fl.Type.Results.List) > 0) {
			k.fail(s, "go statement on a function literal with results or a variadic call")
			return s
		}
		// go func(p1 T1, …){ body }(a1, …)  →  { _g1 := a1; …; vsched.Go(site, func(){ var p1 T1 = _g1; _ = p1; …; body }) }
		// (the arguments are evaluated by the spawning goroutine, the parameters are local to the new one)
		var pre, bind []ast.Stmt
		ai := 0
		for _, f := range fl.Type.Params.List {
			names := f.Names
			if len(names) == 0 {
				names = []*ast.Ident{ast.NewIdent("_")}
			}
			for _, n := range names {
				if ai >= len(s.Call.Args) {
					k.fail(s, "go statement with fewer arguments than parameters")
					return s
				}
				tmp := ast.NewIdent(k.tmp("g"))
				pre = append(pre, &ast.AssignStmt{Lhs: []ast.Expr{tmp}, Tok: token.DEFINE, Rhs: []ast.Expr{k.expr(s.Call.Args[ai])}})
				ai++
				if n.Name == "_" {
					pre = append(pre, &ast.AssignStmt{Lhs: []ast.Expr{ast.NewIdent("_")}, Tok: token.ASSIGN, Rhs: []ast.Expr{tmp}})
					continue
				}
				bind = append(bind, &ast.DeclStmt{Decl: &ast.GenDecl{Tok: token.VAR, Specs: []ast.Spec{
					&ast.ValueSpec{Names: []*ast.Ident{ast.NewIdent(n.Name)}, Type: k.expr(f.Type), Values: []ast.Expr{tmp}}}}},
					&ast.AssignStmt{Lhs: []ast.Expr{ast.NewIdent("_")}, Tok: token.ASSIGN, Rhs: []ast.Expr{ast.NewIdent(n.Name)}})
			}
		}
		if ai != len(s.Call.Args) {
			k.fail(s, "go statement with more arguments than parameters")
			return s
		}
		site := k.fn + "#" + strconv.Itoa(k.goCount)
		k.goCount++
		k.inGo++
		body := k.stmtList(fl.Body.List)
		k.inGo--
		lit := &ast.FuncLit{Type: &ast.FuncType{Params: &ast.FieldList{}}, Body: &ast.BlockStmt{List: append(bind, body...)}}
		goCall := &ast.ExprStmt{X: &ast.CallExpr{Fun: vs("Go"), Args: []ast.Expr{strLit(site), lit}}}
		if len(pre) == 0 {
			return goCall
		}
		return &ast.BlockStmt{List: append(pre, goCall)}
	case *ast.RangeStmt:
		if !k.p.isChan(s.X) {
			break
		}
		if s.Value != nil || (s.Key != nil && s.Tok != token.DEFINE) {
			k.fail(s, "range over a channel that does not declare its variable with :=")
			return s
		}
		ch := k.expr(s.X)
		var key ast.Expr = ast.NewIdent("_")
		if s.Key != nil {
			key = s.Key
		}
		ok := ast.NewIdent(k.tmp("ok"))
		body := &ast.BlockStmt{List: k.stmtList(s.Body.List)}
		return &ast.ForStmt{
			Init: &ast.AssignStmt{Lhs: []ast.Expr{key, ok}, Tok: token.DEFINE, Rhs: []ast.Expr{method(ch, "Recv")}},
			Cond: ok,
			Post: &ast.AssignStmt{Lhs: []ast.Expr{key, ok}, Tok: token.ASSIGN, Rhs: []ast.Expr{method(ch, "Recv")}},
			Body: body,
		}
	case *ast.AssignStmt:
		// v, ok := <-ch
		if len(s.Lhs) == 2 && len(s.Rhs) == 1 {
			if u, ok := s.Rhs[0].(*ast.UnaryExpr); ok && u.Op == token.ARROW {
				s.Lhs[0], s.Lhs[1] = k.expr(s.Lhs[0]), k.expr(s.Lhs[1])
				s.Rhs[0] = method(k.expr(u.X), "Recv")
				return s
			}
		}
		for i := range s.Lhs {
			s.Lhs[i] = k.expr(s.Lhs[i])
		}
		for i := range s.Rhs {
			if len(s.Lhs) == len(s.Rhs) {
				if id, ok := s.Lhs[i].(*ast.Ident); ok {
					k.ctxName = k.fn + "." + id.Name
				}
			}
			s.Rhs[i] = k.expr(s.Rhs[i])
			k.ctxName = ""
		}
		return s
	case *ast.SelectStmt:
		return k.selectStmt(s)
	case *ast.DeclStmt:
		if gd, ok := s.Decl.(*ast.GenDecl); ok {
			k.genDecl(gd)
		}
		return s
	case *ast.BlockStmt:
		s.List = k.stmtList(s.List)
		return s
	}
	k.children(s)
	return s
}

func identOf(e ast.Expr) *ast.Ident {
	id, _ := e.(*ast.Ident)
	return id
}

func (k *rw) selectStmt(s *ast.SelectStmt) ast.Stmt {
	blk := &ast.BlockStmt{}
	sw := &ast.SwitchStmt{Body: &ast.BlockStmt{}}
	call := &ast.CallExpr{Fun: vs("Select")}
	ncase := 0
	for _, c := range s.Body.List {
		cc := c.(*ast.CommClause)
		if cc.Comm == nil { // default: vsched.SelectDefault returns -1, which no numbered case matches
			call.Fun = vs("SelectDefault")
			sw.Body.List = append(sw.Body.List, &ast.CaseClause{Body: k.stmtList(cc.Body)})
			continue
		}
		i := ncase
		ncase++
		var recv *ast.UnaryExpr
		var lhs []ast.Expr
		tok := token.DEFINE
		switch cm := cc.Comm.(type) {
		case *ast.ExprStmt:
			recv, _ = cm.X.(*ast.UnaryExpr)
		case *ast.AssignStmt:
			if len(cm.Rhs) == 1 {
				recv, _ = cm.Rhs[0].(*ast.UnaryExpr)
			}
			lhs, tok = cm.Lhs, cm.Tok
		}
		if recv == nil || recv.Op != token.ARROW {
			k.fail(cc, "select case that is not a receive")
			return s
		}
		cv := ast.NewIdent(k.tmp("c"))
		blk.List = append(blk.List, &ast.AssignStmt{Lhs: []ast.Expr{cv}, Tok: token.DEFINE,
			Rhs: []ast.Expr{method(k.expr(recv.X), "RecvCase")}})
		call.Args = append(call.Args, cv)
		var body []ast.Stmt
		if len(lhs) > 0 {
			rhs := []ast.Expr{&ast.SelectorExpr{X: cv, Sel: ast.NewIdent("Val")}}
			if len(lhs) == 2 {
				rhs = append(rhs, &ast.SelectorExpr{X: cv, Sel: ast.NewIdent("Ok")})
			}
			for j := range lhs {
				lhs[j] = k.expr(lhs[j])
			}
			body = append(body, &ast.AssignStmt{Lhs: lhs, Tok: tok, Rhs: rhs})
		}
		body = append(body, k.stmtList(cc.Body)...)
		sw.Body.List = append(sw.Body.List, &ast.CaseClause{
			List: []ast.Expr{&ast.BasicLit{Kind: token.INT, Value: strconv.Itoa(i)}}, Body: body})
	}
	sw.Tag = call
	blk.List = append(blk.List, sw)
	return blk
}

func (k *rw) isBuiltin(e ast.Expr, name string) bool {
	id, ok := e.(*ast.Ident)
	if !ok || id.Name != name {
		return false
	}
	_, ok = k.p.Info.Uses[id].(*types.Builtin)
	return ok
}

func (k *rw) isSyncWaitGroup(e ast.Expr) bool {
	se, ok := e.(*ast.SelectorExpr)
	if !ok || se.Sel.Name != "WaitGroup" {
		return false
	}
	id, ok := se.X.(*ast.Ident)
	if !ok {
		return false
	}
	pn, ok := k.p.Info.Uses[id].(*types.PkgName)
	return ok && pn.Imported().Path() == "sync"
}

func (k *rw) expr(e ast.Expr) ast.Expr {
	switch e := e.(type) {
	case nil:
		return nil
	case *ast.Ident, *ast.BasicLit:
		return e
	case *ast.ChanType:
		return &ast.StarExpr{X: &ast.IndexExpr{X: vs("Chan"), Index: k.expr(e.Value)}}
	case *ast.SelectorExpr:
		if k.isSyncWaitGroup(e) {
			return vs("WaitGroup")
		}
		e.X = k.expr(e.X)
		return e
	case *ast.CompositeLit:
		if e.Type != nil && k.isSyncWaitGroup(e.Type) && len(e.Elts) == 0 {
			name := k.ctxName
			if name == "" {
				name = k.fn + ".wg"
			}
			return &ast.CompositeLit{Type: vs("WaitGroup"), Elts: []ast.Expr{
				&ast.KeyValueExpr{Key: ast.NewIdent("Name"), Value: strLit(name)}}}
		}
	case *ast.UnaryExpr:
		if e.Op == token.ARROW {
			return method(k.expr(e.X), "Recv1")
		}
	case *ast.FuncLit:
		save := k.ctxName
		k.ctxName = ""
		k.funcType(e.Type)
		e.Body.List = k.stmtList(e.Body.List)
		k.ctxName = save
		return e
	case *ast.FuncType:
		k.funcType(e)
		return e
	case *ast.CallExpr:
		if se, ok := e.Fun.(*ast.SelectorExpr); ok {
			if id, ok := se.X.(*ast.Ident); ok {
				if pn, ok := k.p.Info.Uses[id].(*types.PkgName); ok && pn.Imported().Path() == "reflect" {
					// reflect.Select / reflect.ValueOf(ch).Recv() … operate on real channels: not mappable
					k.fail(e, "channel operations through package reflect")
					return e
				}
			}
		}
		if k.isBuiltin(e.Fun, "make") && len(e.Args) >= 1 {
			if ct, ok := e.Args[0].(*ast.ChanType); ok {
				name := k.ctxName
				if name == "" {
					name = k.fn + ".chan"
				}
				k.ctxName = ""
				var capE ast.Expr = &ast.BasicLit{Kind: token.INT, Value: "0"}
				if len(e.Args) == 2 {
					capE = k.expr(e.Args[1])
				}
				return &ast.CallExpr{Fun: &ast.IndexExpr{X: vs("Make"), Index: k.expr(ct.Value)},
					Args: []ast.Expr{strLit(name), capE}}
			}
		}
		if len(e.Args) == 1 && k.p.isChan(e.Args[0]) {
			switch {
			case k.isBuiltin(e.Fun, "close"):
				return method(k.expr(e.Args[0]), "Close")
			case k.isBuiltin(e.Fun, "cap"):
				return method(k.expr(e.Args[0]), "Cap")
			case k.isBuiltin(e.Fun, "len"):
				return method(k.expr(e.Args[0]), "Len")
			}
		}
		save := k.ctxName
		k.ctxName = ""
		e.Fun = k.expr(e.Fun)
		for i := range e.Args {
			e.Args[i] = k.expr(e.Args[i])
		}
		k.ctxName = save
		return e
	}
	k.children(e)
	return e
}

var (
	exprType  = reflect.TypeOf((*ast.Expr)(nil)).Elem()
	stmtType  = reflect.TypeOf((*ast.Stmt)(nil)).Elem()
	exprsType = reflect.TypeOf([]ast.Expr(nil))
	stmtsType = reflect.TypeOf([]ast.Stmt(nil))
)

// children rewrites the expression / statement fields of any other node generically.
func (k *rw) children(n ast.Node) {
	v := reflect.ValueOf(n)
	if v.Kind() != reflect.Ptr || v.IsNil() {
		return
	}
	v = v.Elem()
	if v.Kind() != reflect.Struct {
		return
	}
	for i := 0; i < v.NumField(); i++ {
		f := v.Field(i)
		if !f.CanSet() {
			continue
		}
		switch {
		case f.Type() == exprType:
			if !f.IsNil() {
				f.Set(reflect.ValueOf(k.expr(f.Interface().(ast.Expr))))
			}
		case f.Type() == stmtType:
			if !f.IsNil() {
				f.Set(reflect.ValueOf(k.stmt(f.Interface().(ast.Stmt))))
			}
		case f.Type() == exprsType:
			l := f.Interface().([]ast.Expr)
			for j := range l {
				l[j] = k.expr(l[j])
			}
		case f.Type() == stmtsType:
			f.Set(reflect.ValueOf(k.stmtList(f.Interface().([]ast.Stmt))))
		default:
			switch x := f.Interface().(type) {
			case *ast.BlockStmt:
				if x != nil {
					x.List = k.stmtList(x.List)
				}
			case *ast.FieldList:
				if x != nil {
					k.fieldList(x)
				}
			case *ast.FuncType:
				if x != nil {
					k.funcType(x)
				}
			case *ast.CallExpr:
				if x != nil {
					if c, ok := k.expr(x).(*ast.CallExpr); ok {
						f.Set(reflect.ValueOf(c))
					} else {
						k.fail(x, "call in go/defer position changed shape")
					}
				}
			}
		}
	}
}
