// Package rewrite holds the two translators of the C19/C20 ties that read the file goderive emitted
// NOW: the channel-operation skeleton extractor (T4) and the source-to-source rewriter onto
// verifharness/vsched (T5).  Both work on go/ast + go/types of the emitted package.
package rewrite

import (
	"fmt"
	"go/ast"
	"go/importer"
	"go/parser"
	"go/token"
	"go/types"
	"os"
	"path/filepath"
	"sort"
	"strings"
)

// Pkg is a parsed and type-checked package directory.
type Pkg struct {
	Dir   string
	Fset  *token.FileSet
	Files []*ast.File
	Names []string // base file names, parallel to Files
	Info  *types.Info
	Types *types.Package
}

// Load parses the non-test Go files of dir and type-checks them (imports from source).
func Load(dir string) (*Pkg, error) {
	ents, err := os.ReadDir(dir)
	if err != nil {
		return nil, err
	}
	p := &Pkg{Dir: dir, Fset: token.NewFileSet()}
	for _, e := range ents {
		n := e.Name()
		if e.IsDir() || !strings.HasSuffix(n, ".go") || strings.HasSuffix(n, "_test.go") {
			continue
		}
		f, err := parser.ParseFile(p.Fset, filepath.Join(dir, n), nil, parser.ParseComments)
		if err != nil {
			return nil, err
		}
		p.Files = append(p.Files, f)
		p.Names = append(p.Names, n)
	}
	p.Info = &types.Info{Types: map[ast.Expr]types.TypeAndValue{}, Uses: map[*ast.Ident]types.Object{},
		Defs: map[*ast.Ident]types.Object{}}
	conf := types.Config{Importer: importer.ForCompiler(p.Fset, "source", nil)}
	tp, err := conf.Check(filepath.Base(dir), p.Fset, p.Files, p.Info)
	if err != nil {
		return nil, fmt.Errorf("type-check of %s: %v", dir, err)
	}
	p.Types = tp
	return p, nil
}

func (p *Pkg) isChan(e ast.Expr) bool {
	t := p.Info.TypeOf(e)
	if t == nil {
		return false
	}
	_, ok := t.Underlying().(*types.Chan)
	return ok
}

// Skeletons returns, for every function declared in file (base name), the canonical one-line
// S-expression of its body: statement structure, channel operations, go statements, WaitGroup calls,
// select cases, assignments, conditions and returns.  Types are erased except that `make(chan T, e)`
// keeps its capacity expression and `range` tells channels from slices.
func (p *Pkg) Skeletons(file string) (map[string]string, error) {
	out := map[string]string{}
	for i, f := range p.Files {
		if p.Names[i] != file {
			continue
		}
		for _, d := range f.Decls {
			fd, ok := d.(*ast.FuncDecl)
			if !ok || fd.Body == nil {
				continue
			}
			sk := &skel{p: p}
			var params []string
			for _, fl := range fd.Type.Params.List {
				for _, n := range fl.Names {
					params = append(params, n.Name)
				}
			}
			s := "(func (" + strings.Join(params, " ") + ")" + sk.stmts(fd.Body.List) + ")"
			if sk.err != nil {
				return nil, fmt.Errorf("%s: %v", fd.Name.Name, sk.err)
			}
			out[fd.Name.Name] = s
		}
	}
	return out, nil
}

type skel struct {
	p   *Pkg
	err error
}

// fail: a construct without a dedicated form is printed as (?<node type>) — the extraction is total, so a tree whose
// emitted code uses something new still gets ITS skeleton (which then differs from the expected one).
func (k *skel) fail(n ast.Node, what string) string {
	return "(?" + strings.TrimPrefix(fmt.Sprintf("%T", n), "*ast.") + ")"
}

func (k *skel) stmts(l []ast.Stmt) string {
	var b strings.Builder
	for _, s := range l {
		b.WriteString(" ")
		b.WriteString(k.stmt(s))
	}
	return b.String()
}

func (k *skel) exprs(l []ast.Expr) string {
	var b strings.Builder
	for _, e := range l {
		b.WriteString(" ")
		b.WriteString(k.expr(e))
	}
	return b.String()
}

func (k *skel) stmt(s ast.Stmt) string {
	switch s := s.(type) {
	case *ast.AssignStmt:
		op := "set"
		if s.Tok == token.DEFINE {
			op = "def"
		} else if s.Tok != token.ASSIGN {
			op = "set" + s.Tok.String()
		}
		return "(" + op + " (" + strings.TrimSpace(k.exprs(s.Lhs)) + ")" + k.exprs(s.Rhs) + ")"
	case *ast.ExprStmt:
		return k.expr(s.X)
	case *ast.GoStmt:
		if fl, ok := s.Call.Fun.(*ast.FuncLit); ok && len(s.Call.Args) == 0 {
			return "(go" + k.stmts(fl.Body.List) + ")"
		}
		return "(go-call " + k.expr(s.Call) + ")"
	case *ast.DeferStmt:
		return "(defer " + k.expr(s.Call) + ")"
	case *ast.RangeStmt:
		kind := "range-other"
		if k.p.isChan(s.X) {
			kind = "range-chan"
		} else if t := k.p.Info.TypeOf(s.X); t != nil {
			if _, ok := t.Underlying().(*types.Slice); ok {
				kind = "range-slice"
			}
		}
		vars := "("
		if s.Key != nil {
			vars += k.expr(s.Key)
		}
		if s.Value != nil {
			vars += " " + k.expr(s.Value)
		}
		vars += ")"
		return "(" + kind + " " + vars + " " + k.expr(s.X) + k.stmts(s.Body.List) + ")"
	case *ast.ForStmt:
		r := "(for ("
		if s.Init != nil {
			r += k.stmt(s.Init)
		}
		r += ") ("
		if s.Cond != nil {
			r += k.expr(s.Cond)
		}
		r += ") ("
		if s.Post != nil {
			r += k.stmt(s.Post)
		}
		return r + ")" + k.stmts(s.Body.List) + ")"
	case *ast.IfStmt:
		r := "(if "
		if s.Init != nil {
			r += "(init " + k.stmt(s.Init) + ") "
		}
		r += k.expr(s.Cond) + " (then" + k.stmts(s.Body.List) + ")"
		if s.Else != nil {
			switch e := s.Else.(type) {
			case *ast.BlockStmt:
				r += " (else" + k.stmts(e.List) + ")"
			default:
				r += " (else " + k.stmt(e) + ")"
			}
		}
		return r + ")"
	case *ast.SelectStmt:
		r := "(select"
		for _, c := range s.Body.List {
			cc := c.(*ast.CommClause)
			if cc.Comm == nil {
				r += " (default" + k.stmts(cc.Body) + ")"
			} else {
				r += " (case " + k.stmt(cc.Comm) + k.stmts(cc.Body) + ")"
			}
		}
		return r + ")"
	case *ast.SendStmt:
		return "(send " + k.expr(s.Chan) + " " + k.expr(s.Value) + ")"
	case *ast.ReturnStmt:
		return "(return" + k.exprs(s.Results) + ")"
	case *ast.DeclStmt:
		gd, ok := s.Decl.(*ast.GenDecl)
		if ok && gd.Tok == token.TYPE {
			r := "(type"
			for _, sp := range gd.Specs {
				ts := sp.(*ast.TypeSpec)
				r += " " + ts.Name.Name + " " + typeAtom(ts.Type)
			}
			return r + ")"
		}
		if !ok || gd.Tok != token.VAR {
			return k.fail(s, "declaration")
		}
		r := "(var"
		for _, sp := range gd.Specs {
			vs := sp.(*ast.ValueSpec)
			for _, n := range vs.Names {
				r += " " + n.Name
			}
			if len(vs.Values) > 0 {
				r += " =" + k.exprs(vs.Values)
			}
		}
		return r + ")"
	case *ast.IncDecStmt:
		return "(" + s.Tok.String() + " " + k.expr(s.X) + ")"
	case *ast.BlockStmt:
		return "(block" + k.stmts(s.List) + ")"
	case *ast.BranchStmt:
		return "(" + s.Tok.String() + ")"
	}
	return k.fail(s, "statement")
}

func (k *skel) expr(e ast.Expr) string {
	switch e := e.(type) {
	case *ast.Ident:
		return e.Name
	case *ast.BasicLit:
		return strings.ReplaceAll(e.Value, " ", "_")
	case *ast.ParenExpr:
		return k.expr(e.X)
	case *ast.SelectorExpr:
		return k.expr(e.X) + "." + e.Sel.Name
	case *ast.UnaryExpr:
		if e.Op == token.ARROW {
			return "(recv " + k.expr(e.X) + ")"
		}
		return "(" + e.Op.String() + " " + k.expr(e.X) + ")"
	case *ast.BinaryExpr:
		return "(" + e.Op.String() + " " + k.expr(e.X) + " " + k.expr(e.Y) + ")"
	case *ast.StarExpr:
		return "(* " + k.expr(e.X) + ")"
	case *ast.IndexExpr:
		return "(index " + k.expr(e.X) + " " + k.expr(e.Index) + ")"
	case *ast.FuncLit:
		var params []string
		for _, fl := range e.Type.Params.List {
			for _, n := range fl.Names {
				params = append(params, n.Name)
			}
		}
		return "(lambda (" + strings.Join(params, " ") + ")" + k.stmts(e.Body.List) + ")"
	case *ast.CompositeLit:
		t := "-"
		if e.Type != nil {
			t = typeAtom(e.Type)
		}
		return "(lit " + t + k.exprs(e.Elts) + ")"
	case *ast.SliceExpr:
		r := "(slice " + k.expr(e.X)
		for _, x := range []ast.Expr{e.Low, e.High, e.Max} {
			if x == nil {
				r += " -"
			} else {
				r += " " + k.expr(x)
			}
		}
		return r + ")"
	case *ast.TypeAssertExpr:
		if e.Type == nil {
			return "(type-switch-guard " + k.expr(e.X) + ")"
		}
		return "(assert " + k.expr(e.X) + " " + typeAtom(e.Type) + ")"
	case *ast.Ellipsis:
		return "(...)"
	case *ast.KeyValueExpr:
		return "(kv " + k.expr(e.Key) + " " + k.expr(e.Value) + ")"
	case *ast.CallExpr:
		if id, ok := e.Fun.(*ast.Ident); ok && id.Name == "make" && len(e.Args) >= 1 {
			if _, isChan := e.Args[0].(*ast.ChanType); isChan {
				if len(e.Args) == 1 {
					return "(make-chan 0)"
				}
				return "(make-chan " + k.expr(e.Args[1]) + ")"
			}
			return "(make-other" + k.exprs(e.Args[1:]) + ")"
		}
		return "(" + k.expr(e.Fun) + k.exprs(e.Args) + ")"
	}
	return k.fail(e, "expression")
}

// typeAtom prints a type expression as one atom.
func typeAtom(e ast.Expr) string {
	r := strings.NewReplacer(" ", "", "\n", "", "\t", "", "(", "<", ")", ">", ";", ",")
	return r.Replace(types.ExprString(e))
}

// SortedNames returns the keys of m in order.
func SortedNames(m map[string]string) []string {
	var ns []string
	for n := range m {
		ns = append(ns, n)
	}
	sort.Strings(ns)
	return ns
}
