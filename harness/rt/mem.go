package rt

// Support for the C18 (Mem) correspondence: the instrumented deterministic `f` handed to
// deriveMem computes its results from a digest of its arguments that the Lean driver computes with
// a matching definition (Driver/OpsMem.lean `digestM`), logs its calls, and results are printed in
// an identity-erased wire form without spaces.

import (
	"fmt"
	"math"
	"reflect"
	"sort"
	"strconv"
	"strings"
)

// memDigest mirrors `digestM raw false` of Driver/OpsMem.lean on the reflected Go value.
// raw = false: a function of the *structural* value (addresses, spare capacity and map order do not
// matter, +0 and -0 count the same), so that f respects derived Equal and Go's ==;
// raw = true: float leaves by their raw bit pattern (an f that tells +0 from -0).
func memDigest(v reflect.Value, raw bool) uint64 {
	v = readable(v)
	fl := func(f float64, w int) uint64 {
		if !raw && f == 0 {
			return 0
		}
		if w == 32 {
			return uint64(math.Float32bits(float32(f)))
		}
		return math.Float64bits(f)
	}
	seq := func(n int, at func(i int) reflect.Value) uint64 {
		h := uint64(89)
		for i := n - 1; i >= 0; i-- {
			h = 97*h + memDigest(at(i), raw) + 101
		}
		return h
	}
	switch v.Kind() {
	case reflect.Bool:
		if v.Bool() {
			return 2
		}
		return 1
	case reflect.Int, reflect.Int8, reflect.Int16, reflect.Int32, reflect.Int64:
		return 3 + 5*uint64(v.Int())
	case reflect.Uint, reflect.Uint8, reflect.Uint16, reflect.Uint32, reflect.Uint64, reflect.Uintptr:
		return 3 + 5*v.Uint()
	case reflect.Float32:
		return 7 + 11*fl(v.Float(), 32)
	case reflect.Float64:
		return 7 + 11*fl(v.Float(), 64)
	case reflect.Complex64:
		c := v.Complex()
		return 13 + 17*fl(real(c), 32) + 19*fl(imag(c), 32)
	case reflect.Complex128:
		c := v.Complex()
		return 13 + 17*fl(real(c), 64) + 19*fl(imag(c), 64)
	case reflect.String:
		h := uint64(23)
		s := v.String()
		for i := 0; i < len(s); i++ {
			h = 131*h + uint64(s[i]) + 1
		}
		return h
	case reflect.Ptr:
		if v.IsNil() {
			return 29
		}
		return 31 + 37*memDigest(v.Elem(), raw)
	case reflect.Slice:
		if v.IsNil() {
			return 29
		}
		return 41 + 43*seq(v.Len(), v.Index)
	case reflect.Array:
		return 47 + 53*seq(v.Len(), v.Index)
	case reflect.Struct:
		return 59 + 61*seq(v.NumField(), v.Field)
	case reflect.Map:
		if v.IsNil() {
			return 29
		}
		var sum uint64
		it := v.MapRange()
		for it.Next() {
			sum += 73 + 79*memDigest(it.Key(), raw) + 83*memDigest(it.Value(), raw)
		}
		return 67 + 71*sum
	}
	panic("rt: cannot digest kind " + v.Kind().String())
}

// memShow prints a value in wire form with every address and spare capacity erased (0), map
// entries sorted by printed key, and '_' instead of ' ' (answers contain no spaces).
func memShow(sb *strings.Builder, v reflect.Value) {
	v = readable(v)
	t := v.Type()
	switch t.Kind() {
	case reflect.Bool:
		if v.Bool() {
			sb.WriteString("(b_1)")
		} else {
			sb.WriteString("(b_0)")
		}
	case reflect.Int, reflect.Int8, reflect.Int16, reflect.Int32, reflect.Int64:
		fmt.Fprintf(sb, "(i_%d)", v.Int())
	case reflect.Uint, reflect.Uint8, reflect.Uint16, reflect.Uint32, reflect.Uint64, reflect.Uintptr:
		fmt.Fprintf(sb, "(i_%d)", v.Uint())
	case reflect.Float32:
		fmt.Fprintf(sb, "(f_32_%d)", math.Float32bits(float32(v.Float())))
	case reflect.Float64:
		fmt.Fprintf(sb, "(f_64_%d)", math.Float64bits(v.Float()))
	case reflect.Complex64:
		c := v.Complex()
		fmt.Fprintf(sb, "(c_32_%d_%d)", math.Float32bits(float32(real(c))), math.Float32bits(float32(imag(c))))
	case reflect.Complex128:
		c := v.Complex()
		fmt.Fprintf(sb, "(c_64_%d_%d)", math.Float64bits(real(c)), math.Float64bits(imag(c)))
	case reflect.String:
		s := v.String()
		if s == "" {
			sb.WriteString("(s)")
		} else {
			fmt.Fprintf(sb, "(s_%x)", s)
		}
	case reflect.Interface:
		// an error result: printed as the *string the model takes it for
		if v.IsNil() {
			sb.WriteString("nil")
			return
		}
		fmt.Fprintf(sb, "(p_0_(s_%x))", v.Interface().(error).Error())
	case reflect.Ptr:
		if v.IsNil() {
			sb.WriteString("nil")
			return
		}
		sb.WriteString("(p_0_")
		memShow(sb, v.Elem())
		sb.WriteString(")")
	case reflect.Slice:
		if v.IsNil() {
			sb.WriteString("nil")
			return
		}
		sb.WriteString("(sl_0_0")
		for i := 0; i < v.Len(); i++ {
			sb.WriteString("_")
			memShow(sb, v.Index(i))
		}
		sb.WriteString(")")
	case reflect.Array:
		sb.WriteString("(ar")
		for i := 0; i < v.Len(); i++ {
			sb.WriteString("_")
			memShow(sb, v.Index(i))
		}
		sb.WriteString(")")
	case reflect.Struct:
		sb.WriteString("(st")
		for i := 0; i < v.NumField(); i++ {
			if v.Type().Field(i).Name == "_" {
				continue
			}
			sb.WriteString("_")
			memShow(sb, v.Field(i))
		}
		sb.WriteString(")")
	case reflect.Map:
		if v.IsNil() {
			sb.WriteString("nil")
			return
		}
		var ents []string
		it := v.MapRange()
		for it.Next() {
			var e strings.Builder
			e.WriteString("(")
			memShow(&e, it.Key())
			e.WriteString("_")
			memShow(&e, it.Value())
			e.WriteString(")")
			ents = append(ents, e.String())
		}
		sort.Strings(ents)
		sb.WriteString("(m_0")
		for _, e := range ents {
			sb.WriteString("_" + e)
		}
		sb.WriteString(")")
	default:
		panic("rt: cannot show kind " + t.Kind().String())
	}
}

func memTuple(vals []interface{}) string {
	var sb strings.Builder
	sb.WriteString("(")
	for i, a := range vals {
		if i > 0 {
			sb.WriteString("_")
		}
		// an `error` result arrives as a nil interface or as the concrete error: the model takes it for a *string
		if a == nil {
			sb.WriteString("nil")
		} else if e, ok := a.(error); ok {
			fmt.Fprintf(&sb, "(p_0_(s_%x))", e.Error())
		} else {
			memShow(&sb, reflect.ValueOf(a))
		}
	}
	sb.WriteString(")")
	return sb.String()
}

// MemLog is the call log of one instrumented f.
type MemLog struct {
	Raw     bool // f tells +0 from -0 (does not respect ==)
	Idx     int  // index of the call of the memoised function that is being played
	entries []string
}

// Call records an invocation of f and returns the digest of the argument tuple (results of f are
// computed from it). Arguments must be passed with their static types (typed nils).
func (l *MemLog) Call(args ...interface{}) uint64 {
	h := uint64(12) // divisible by 3 and by 4: with no arguments a single slice or pointer result is nil (MemNil)
	for _, a := range args {
		h = 31*h + memDigest(reflect.ValueOf(a), l.Raw)
	}
	l.entries = append(l.entries, strconv.Itoa(l.Idx)+":"+memTuple(args))
	return h
}

func (l *MemLog) String() string { return strings.Join(l.entries, ",") }

// MemOut collects the results of the calls of the memoised function.
type MemOut struct{ outs []string }

func (o *MemOut) Add(rs ...interface{}) { o.outs = append(o.outs, memTuple(rs)) }

func (o *MemOut) String() string { return strings.Join(o.outs, ";") }

// result leaves of the instrumented f: functions of (digest d, result position j), mirrored by
// `mkRes` in Driver/OpsMem.lean
func MemResInt(d uint64, j int) int64 { return int64((d + 7919*uint64(j)) % 1000) }

func MemResStr(d uint64, j int) string {
	return "r" + strconv.FormatUint((d+uint64(j))%97, 10)
}

func MemResBool(d uint64, j int) bool { return (d+uint64(j))%2 == 1 }

func MemResF64(d uint64, j int) float64 {
	switch (d + uint64(j)) % 3 {
	case 0:
		return 1.5
	case 1:
		return -2.25
	}
	return 0
}

// MemErr is the error the instrumented f returns.
type MemErr string

func (e MemErr) Error() string { return string(e) }

// MemResErr: an `error` result, seen by the model as a *string (nil for the same digests as a pointer result)
func MemResErr(d uint64, j int) error {
	if MemNil(d, j, 4) {
		return nil
	}
	return MemErr(MemResStr(d, j))
}

// MemNil: whether a pointer / slice result is nil for this digest
func MemNil(d uint64, j int, mod uint64) bool { return (d+uint64(j))%mod == 0 }
