// Package rt is the runtime linked into generated corpus programs: wire parser, reflection-based
// value builder / observer honouring address ids, and the op loop.
package rt

import (
	"fmt"
	"strings"
)

type SExp struct {
	Atom string
	List []*SExp
	IsL  bool
}

func (s *SExp) String() string {
	if !s.IsL {
		return s.Atom
	}
	parts := make([]string, len(s.List))
	for i, x := range s.List {
		parts[i] = x.String()
	}
	return "(" + strings.Join(parts, " ") + ")"
}

func (s *SExp) Head() string {
	if s.IsL && len(s.List) > 0 && !s.List[0].IsL {
		return s.List[0].Atom
	}
	return ""
}

// ParseAll parses a whole line into top-level expressions.
func ParseAll(line string) ([]*SExp, error) {
	toks := tokenize(line)
	pos := 0
	var out []*SExp
	for pos < len(toks) {
		e, err := parse(toks, &pos)
		if err != nil {
			return nil, err
		}
		out = append(out, e)
	}
	return out, nil
}

func tokenize(s string) []string {
	var out []string
	cur := strings.Builder{}
	flush := func() {
		if cur.Len() > 0 {
			out = append(out, cur.String())
			cur.Reset()
		}
	}
	for i := 0; i < len(s); i++ {
		c := s[i]
		switch c {
		case '(', ')':
			flush()
			out = append(out, string(c))
		case ' ', '\t', '\n', '\r':
			flush()
		default:
			cur.WriteByte(c)
		}
	}
	flush()
	return out
}

func parse(toks []string, pos *int) (*SExp, error) {
	if *pos >= len(toks) {
		return nil, fmt.Errorf("eof")
	}
	t := toks[*pos]
	*pos++
	if t == ")" {
		return nil, fmt.Errorf("unexpected )")
	}
	if t != "(" {
		return &SExp{Atom: t}, nil
	}
	l := &SExp{IsL: true}
	for {
		if *pos >= len(toks) {
			return nil, fmt.Errorf("eof in list")
		}
		if toks[*pos] == ")" {
			*pos++
			return l, nil
		}
		e, err := parse(toks, pos)
		if err != nil {
			return nil, err
		}
		l.List = append(l.List, e)
	}
}
