package rt

// Runtime support for the ops of the slice / map / string helper plugins (C13, C14, C17): an
// identity-free canonical printer and one generic adapter per helper signature. The answers have
// the form `A;B` documented in lean/Driver/OpsLists.lean and must be produced byte for byte as the
// Lean driver produces them.

import (
	"fmt"
	"math"
	"reflect"
	"sort"
	"strings"
	"unsafe"
)

// Canon prints v like the wire format with every address and spare capacity 0, map entries sorted
// by printed key and '_' for ' '. nz additionally prints -0 as +0 (canonical form of Equal classes).
func Canon(v reflect.Value, nz bool) string {
	var sb strings.Builder
	canon(&sb, v, nz)
	return sb.String()
}

func normBits(bits uint64, w uint, nz bool) uint64 {
	if nz && bits&^(uint64(1)<<(w-1)) == 0 {
		return 0
	}
	return bits
}

func canon(sb *strings.Builder, v reflect.Value, nz bool) {
	v = readable(v)
	t := v.Type()
	switch t.Kind() {
	case reflect.Bool:
		if v.Bool() {
			sb.WriteString("(b_1)")
		} else {
			sb.WriteString("(b_0)")
		}
	case reflect.Int, reflect.Int8, reflect.Int16, reflect.Int32, reflect.Int64:
		fmt.Fprintf(sb, "(i_%d)", v.Int())
	case reflect.Uint, reflect.Uint8, reflect.Uint16, reflect.Uint32, reflect.Uint64, reflect.Uintptr:
		fmt.Fprintf(sb, "(i_%d)", v.Uint())
	case reflect.Float32:
		fmt.Fprintf(sb, "(f_32_%d)", normBits(uint64(math.Float32bits(float32(v.Float()))), 32, nz))
	case reflect.Float64:
		fmt.Fprintf(sb, "(f_64_%d)", normBits(math.Float64bits(v.Float()), 64, nz))
	case reflect.Complex64:
		c := v.Complex()
		fmt.Fprintf(sb, "(c_32_%d_%d)", normBits(uint64(math.Float32bits(float32(real(c)))), 32, nz),
			normBits(uint64(math.Float32bits(float32(imag(c)))), 32, nz))
	case reflect.Complex128:
		c := v.Complex()
		fmt.Fprintf(sb, "(c_64_%d_%d)", normBits(math.Float64bits(real(c)), 64, nz), normBits(math.Float64bits(imag(c)), 64, nz))
	case reflect.String:
		s := v.String()
		if s == "" {
			sb.WriteString("(s)")
		} else {
			fmt.Fprintf(sb, "(s_%x)", s)
		}
	case reflect.Ptr:
		if v.IsNil() {
			sb.WriteString("nil")
			return
		}
		sb.WriteString("(p_0_")
		canon(sb, v.Elem(), nz)
		sb.WriteString(")")
	case reflect.Slice:
		if v.IsNil() {
			sb.WriteString("nil")
			return
		}
		sb.WriteString("(sl_0_0")
		for i := 0; i < v.Len(); i++ {
			sb.WriteString("_")
			canon(sb, v.Index(i), nz)
		}
		sb.WriteString(")")
	case reflect.Array:
		sb.WriteString("(ar")
		for i := 0; i < v.Len(); i++ {
			sb.WriteString("_")
			canon(sb, v.Index(i), nz)
		}
		sb.WriteString(")")
	case reflect.Struct:
		sb.WriteString("(st")
		for i := 0; i < v.NumField(); i++ {
			if v.Type().Field(i).Name == "_" {
				continue
			}
			sb.WriteString("_")
			canon(sb, v.Field(i), nz)
		}
		sb.WriteString(")")
	case reflect.Map:
		if v.IsNil() {
			sb.WriteString("nil")
			return
		}
		type ent struct{ k, v string }
		var ents []ent
		it := v.MapRange()
		for it.Next() {
			ents = append(ents, ent{Canon(it.Key(), nz), Canon(it.Value(), nz)})
		}
		sort.Slice(ents, func(i, j int) bool { return ents[i].k < ents[j].k })
		sb.WriteString("(m_0")
		for _, e := range ents {
			sb.WriteString("_(" + e.k + "_" + e.v + ")")
		}
		sb.WriteString(")")
	default:
		panic("rt: cannot print kind " + t.Kind().String())
	}
}

func canonOf[T any](x T, nz bool) string { return Canon(reflect.ValueOf(&x).Elem(), nz) }

func bracket(ss []string) string { return "[" + strings.Join(ss, ",") + "]" }

func strsOf[T any](xs []T, nz bool) []string {
	out := make([]string, len(xs))
	for i, x := range xs {
		out[i] = canonOf(x, nz)
	}
	return out
}

// showE prints the elements only (nil and empty both `[]`).
func showE[T any](xs []T) string { return bracket(strsOf(xs, false)) }

// showL prints a slice with its nil-ness.
func showL[T any](xs []T) string {
	if xs == nil {
		return "nil"
	}
	return showE(xs)
}

func showSorted[T any](xs []T, nz bool) string {
	ss := strsOf(xs, nz)
	sort.Strings(ss)
	return bracket(ss)
}

func nilness(isNil bool) string {
	if isNil {
		return "n"
	}
	return "s"
}

func keysOf[K comparable, V any](m map[K]V) []K {
	ks := make([]K, 0, len(m))
	for k := range m {
		ks = append(ks, k)
	}
	return ks
}

// canonRuns sorts each maximal run of consecutive mutually unordered elements by printed form.
func canonRuns[T any](xs []T, less func(a, b T) bool) string {
	var out, run []string
	flush := func() {
		sort.Strings(run)
		out = append(out, run...)
		run = nil
	}
	for i, x := range xs {
		if i > 0 && (less(xs[i-1], x) || less(x, xs[i-1])) {
			flush()
		}
		run = append(run, canonOf(x, false))
	}
	flush()
	return bracket(out)
}

// overlap reports whether the backing arrays (full capacity) of two slices share memory.
func overlap[A, B any](x []A, y []B) bool {
	var a A
	var b B
	sx, sy := uintptr(cap(x))*unsafe.Sizeof(a), uintptr(cap(y))*unsafe.Sizeof(b)
	if sx == 0 || sy == 0 {
		return false
	}
	px := uintptr(unsafe.Pointer(unsafe.SliceData(x)))
	py := uintptr(unsafe.Pointer(unsafe.SliceData(y)))
	return px < py+sy && py < px+sx
}

// aliasFlag: "a" when the result shares its backing array with the input, "f" when it is fresh.
func aliasFlag(shared bool) string {
	if shared {
		return "a"
	}
	return "f"
}

// buildLongestFirst builds, for every backing-array id among the candidate slice expressions, the
// longest occurrence first, so that the shorter ones become real views of the same array (rt.Build
// fills only the cells of the first occurrence it meets).
func buildLongestFirst(c *Ctx, t reflect.Type, cands []*SExp) {
	longest := map[string]*SExp{}
	for _, e := range cands {
		if e.IsL && e.Head() == "sl" {
			id := e.List[1].Atom
			if o, ok := longest[id]; !ok || len(e.List) > len(o.List) {
				longest[id] = e
			}
		}
	}
	for _, e := range cands {
		if e.IsL && e.Head() == "sl" && longest[e.List[1].Atom] == e {
			c.Build(t, e)
		}
	}
}

func elemsOf(l *SExp) []*SExp {
	if l.IsL && l.Head() == "sl" {
		return l.List[3:]
	}
	return nil
}

// prebuildViews: the inner lists of a list of lists may be views of one backing array.
func prebuildViews(c *Ctx, inner reflect.Type, outer *SExp) {
	buildLongestFirst(c, inner, elemsOf(outer))
}

// preViews: when the element type E is itself a slice type, the elements of the list arguments and the
// item arguments of one op may be views of one backing array (same start, different lengths).
func preViews[E any](c *Ctx, lists []*SExp, items ...*SExp) {
	t := reflect.TypeOf((*E)(nil)).Elem()
	if t.Kind() != reflect.Slice {
		return
	}
	cands := append([]*SExp(nil), items...)
	for _, l := range lists {
		cands = append(cands, elemsOf(l)...)
	}
	buildLongestFirst(c, t, cands)
}

func build[T any](c *Ctx, a *SExp) T {
	t := reflect.TypeOf((*T)(nil)).Elem()
	return c.Build(t, a).Interface().(T)
}

func bitsOf(a *SExp) []bool {
	if a.IsL || len(a.Atom) == 0 || a.Atom[0] != 'b' {
		panic("rt: bad script")
	}
	out := make([]bool, len(a.Atom)-1)
	for i, c := range a.Atom[1:] {
		out[i] = c == '1'
	}
	return out
}

// scripted predicate: the k-th call answers bit k (false when exhausted) and logs its argument
func scriptPred[E any](bits []bool, log *[]string) func(E) bool {
	k := 0
	return func(e E) bool {
		*log = append(*log, canonOf(e, false))
		r := k < len(bits) && bits[k]
		k++
		return r
	}
}

// ---- C13

func Sort[E any](f func([]E) []E, less func(a, b E) bool) OpFunc {
	return func(c *Ctx, a []*SExp) string {
		preViews[E](c, a[:1])
		l := build[[]E](c, a[0])
		out := f(l)
		return canonRuns(out, less) + ";" + nilness(out == nil) + "," + canonRuns(l, less) + "," + aliasFlag(overlap(out, l))
	}
}

func Keys[K comparable, V any](f func(map[K]V) []K) OpFunc {
	return func(c *Ctx, a []*SExp) string {
		m := build[map[K]V](c, a[0])
		out := f(m)
		return showSorted(out, false) + ";" + nilness(out == nil)
	}
}

// Min serves the list forms of min and max.
func Min[E any](f func([]E, E) E) OpFunc {
	return func(c *Ctx, a []*SExp) string {
		preViews[E](c, a[:1], a[1])
		l := build[[]E](c, a[0])
		d := build[E](c, a[1])
		m := f(l, d)
		return canonOf(m, true) + ";" + canonOf(m, false)
	}
}

// Min2 serves the two-value forms of min and max.
func Min2[E any](f func(E, E) E) OpFunc {
	return func(c *Ctx, a []*SExp) string {
		preViews[E](c, nil, a[0], a[1])
		x := build[E](c, a[0])
		y := build[E](c, a[1])
		m := f(x, y)
		return canonOf(m, true) + ";" + canonOf(m, false)
	}
}

// ---- C14

func Contains[E any](f func([]E, E) bool) OpFunc {
	return func(c *Ctx, a []*SExp) string {
		preViews[E](c, a[:1], a[1])
		l := build[[]E](c, a[0])
		x := build[E](c, a[1])
		return Bool(f(l, x)) + ";"
	}
}

func Unique[E any](f func([]E) []E, useMap bool) OpFunc {
	return func(c *Ctx, a []*SExp) string {
		preViews[E](c, a[:1])
		l := build[[]E](c, a[0])
		out := f(l)
		if useMap {
			return showSorted(out, true) + ";" + nilness(out == nil) + "," + showSorted(out, false) + "," + showL(l) + "," + aliasFlag(overlap(out, l))
		}
		// print the result before the input: both alias the same array, neither is written here
		return showE(out) + ";" + nilness(out == nil) + "," + showL(l) + "," + aliasFlag(overlap(out, l))
	}
}

func Set[E comparable](f func([]E) map[E]struct{}) OpFunc {
	return func(c *Ctx, a []*SExp) string {
		l := build[[]E](c, a[0])
		m := f(l)
		ks := keysOf(m)
		return showSorted(ks, true) + ";" + nilness(m == nil) + "," + showSorted(ks, false)
	}
}

func UnionL[E any](f func(a, b []E) []E) OpFunc {
	return func(c *Ctx, a []*SExp) string {
		preViews[E](c, a[:2])
		this := build[[]E](c, a[0])
		that := build[[]E](c, a[1])
		out := f(this, that)
		return showE(out) + ";" + nilness(out == nil) + "," + showL(this) + "," + showL(that) + "," +
			aliasFlag(overlap(out, this)) + aliasFlag(overlap(out, that))
	}
}

func IntersectL[E any](f func(a, b []E) []E) OpFunc {
	return func(c *Ctx, a []*SExp) string {
		preViews[E](c, a[:2])
		this := build[[]E](c, a[0])
		that := build[[]E](c, a[1])
		out := f(this, that)
		return showE(out) + ";" + nilness(out == nil) + "," + aliasFlag(overlap(out, this)) + aliasFlag(overlap(out, that))
	}
}

func UnionM[K comparable](f func(a, b map[K]struct{}) map[K]struct{}) OpFunc {
	return func(c *Ctx, a []*SExp) string {
		this := build[map[K]struct{}](c, a[0])
		that := build[map[K]struct{}](c, a[1])
		out := f(this, that)
		ks, ts := keysOf(out), keysOf(this)
		return showSorted(ks, true) + ";" + nilness(out == nil) + "," + showSorted(ks, false) + "," +
			nilness(this == nil) + "," + showSorted(ts, false)
	}
}

func IntersectM[K comparable](f func(a, b map[K]struct{}) map[K]struct{}) OpFunc {
	return func(c *Ctx, a []*SExp) string {
		this := build[map[K]struct{}](c, a[0])
		that := build[map[K]struct{}](c, a[1])
		out := f(this, that)
		ks := keysOf(out)
		return showSorted(ks, true) + ";" + nilness(out == nil) + "," + showSorted(ks, false)
	}
}

func Filter[E any](f func(func(E) bool, []E) []E) OpFunc {
	return func(c *Ctx, a []*SExp) string {
		preViews[E](c, a[:1])
		l := build[[]E](c, a[0])
		var log []string
		out := f(scriptPred[E](bitsOf(a[1]), &log), l)
		return showE(out) + "|" + bracket(log) + ";" + nilness(out == nil) + "," + showL(l) + "," + aliasFlag(overlap(out, l))
	}
}

func TakeWhile[E any](f func(func(E) bool, []E) []E) OpFunc {
	return func(c *Ctx, a []*SExp) string {
		preViews[E](c, a[:1])
		l := build[[]E](c, a[0])
		var log []string
		out := f(scriptPred[E](bitsOf(a[1]), &log), l)
		return showE(out) + "|" + bracket(log) + ";" + nilness(out == nil) + "," + aliasFlag(overlap(out, l))
	}
}

// AllAny serves all and any.
func AllAny[E any](f func(func(E) bool, []E) bool) OpFunc {
	return func(c *Ctx, a []*SExp) string {
		preViews[E](c, a[:1])
		l := build[[]E](c, a[0])
		var log []string
		r := f(scriptPred[E](bitsOf(a[1]), &log), l)
		return Bool(r) + "|" + bracket(log) + ";"
	}
}

// ---- C17

// scripted function: the k-th call returns results[k] and logs its argument
func scriptFn[E, R any](rs []R, log *[]string) func(E) R {
	k := 0
	return func(e E) R {
		*log = append(*log, canonOf(e, false))
		var r R
		if k < len(rs) {
			r = rs[k]
		}
		k++
		return r
	}
}

func Fmap[E, R any](f func(func(E) R, []E) []R) OpFunc {
	return func(c *Ctx, a []*SExp) string {
		preViews[E](c, a[:1])
		l := build[[]E](c, a[0])
		rs := build[[]R](c, a[1])
		var log []string
		out := f(scriptFn[E, R](rs, &log), l)
		// "inputs are not modified": the input as observed afterwards, and the result must be fresh memory
		return showE(out) + "|" + bracket(log) + "|" + showL(l) + "|" + aliasFlag(overlap(out, l)) + ";" + nilness(out == nil)
	}
}

func FmapS[R any](f func(func(rune) R, string) []R) OpFunc {
	return func(c *Ctx, a []*SExp) string {
		s := build[string](c, a[0])
		rs := build[[]R](c, a[1])
		var log []string
		out := f(scriptFn[rune, R](rs, &log), s)
		return showE(out) + "|" + bracket(log) + ";" + nilness(out == nil)
	}
}

func Join[E any](f func([][]E) []E) OpFunc {
	return func(c *Ctx, a []*SExp) string {
		preViews[E](c, elemsOf(a[0]))
		prebuildViews(c, reflect.TypeOf((*[]E)(nil)).Elem(), a[0])
		ll := build[[][]E](c, a[0])
		out := f(ll)
		shared := false
		for _, l := range ll {
			shared = shared || overlap(out, l)
		}
		after := "nil"
		if ll != nil {
			ss := make([]string, len(ll))
			for i, l := range ll {
				ss[i] = showL(l)
			}
			after = bracket(ss)
		}
		res := showE(out)
		if ll == nil {
			res = nilness(out == nil)
		}
		return res + "|" + after + "|" + aliasFlag(shared) + ";" + nilness(out == nil)
	}
}

func JoinS(f func([]string) string) OpFunc {
	return func(c *Ctx, a []*SExp) string {
		l := build[[]string](c, a[0])
		out := f(l)
		return canonOf(out, false) + "|" + showL(l) + ";"
	}
}

// ---- consistency of the emitted helpers with the emitted Equal (values may hold NaN)

func anyEq[E any](eq func(a, b E) bool, xs []E, x E) bool {
	for _, e := range xs {
		if eq(e, x) {
			return true
		}
	}
	return false
}

// same reports bitwise identity of the printed forms (Equal is not reflexive on NaN)
func same[E any](a, b E) bool { return canonOf(a, false) == canonOf(b, false) }

// coveredBy: every x of xs is Equal to, or bit-identical with, some element of ys
func coveredBy[E any](eq func(a, b E) bool, xs, ys []E) bool {
	for _, x := range xs {
		ok := false
		for _, y := range ys {
			if eq(y, x) || same(y, x) {
				ok = true
				break
			}
		}
		if !ok {
			return false
		}
	}
	return true
}

func pairwiseNotEq[E any](eq func(a, b E) bool, xs []E) bool {
	for i := range xs {
		for j := range xs {
			if i != j && eq(xs[i], xs[j]) {
				return false
			}
		}
	}
	return true
}

// ContainsEq: Contains(l, x) == (some element of l is deriveEqual to x)
func ContainsEq[E any](f func([]E, E) bool, eq func(a, b E) bool) OpFunc {
	return func(c *Ctx, a []*SExp) string {
		preViews[E](c, a[:1], a[1])
		l := build[[]E](c, a[0])
		x := build[E](c, a[1])
		return Bool(f(l, x) == anyEq(eq, l, x)) + ";"
	}
}

// UniqueEq: the result is pairwise not deriveEqual, comes from the input and covers it
func UniqueEq[E any](f func([]E) []E, eq func(a, b E) bool) OpFunc {
	return func(c *Ctx, a []*SExp) string {
		preViews[E](c, a[:1])
		l := build[[]E](c, a[0])
		orig := append([]E(nil), l...)
		out := f(l)
		if coveredBy(eq, orig, out) && coveredBy(eq, out, orig) && !pairwiseNotEq(eq, out) {
			// nothing lost, nothing invented, but two Equal elements kept
			return "false;kept-equal"
		}
		return Bool(pairwiseNotEq(eq, out) && coveredBy(eq, orig, out) && coveredBy(eq, out, orig)) + ";"
	}
}

func SetEq[E comparable](f func([]E) map[E]struct{}, eq func(a, b E) bool) OpFunc {
	return func(c *Ctx, a []*SExp) string {
		l := build[[]E](c, a[0])
		ks := keysOf(f(l))
		return Bool(pairwiseNotEq(eq, ks) && coveredBy(eq, l, ks) && coveredBy(eq, ks, l)) + ";"
	}
}

// UnionEq: the first list, then items that are new (not deriveEqual to an element of the first list or to
// each other), covering both inputs
func UnionEq[E any](f func(a, b []E) []E, eq func(a, b E) bool) OpFunc {
	return func(c *Ctx, a []*SExp) string {
		preViews[E](c, a[:2])
		this := build[[]E](c, a[0])
		that := build[[]E](c, a[1])
		n := len(this)
		orig := append([]E(nil), this...)
		out := f(this, that)
		ok := len(out) >= n
		for i := 0; ok && i < n; i++ {
			ok = same(out[i], orig[i])
		}
		if ok {
			added := out[n:]
			ok = pairwiseNotEq(eq, added) && coveredBy(eq, orig, out) && coveredBy(eq, that, out) && coveredBy(eq, added, that)
			for _, x := range added {
				ok = ok && !anyEq(eq, orig, x)
			}
		}
		return Bool(ok) + ";"
	}
}

// IntersectEq: exactly the elements of the first list that are deriveEqual to some element of the second
func IntersectEq[E any](f func(a, b []E) []E, eq func(a, b E) bool) OpFunc {
	return func(c *Ctx, a []*SExp) string {
		preViews[E](c, a[:2])
		this := build[[]E](c, a[0])
		that := build[[]E](c, a[1])
		var want []E
		for _, e := range this {
			if anyEq(eq, that, e) {
				want = append(want, e)
			}
		}
		out := f(this, that)
		ok := len(out) == len(want)
		for i := 0; ok && i < len(want); i++ {
			ok = same(out[i], want[i])
		}
		return Bool(ok) + ";"
	}
}

// ---- consistency of sort / min / max with the emitted Compare (element types with their own Compare)

func sameMultiset[E any](xs, ys []E) bool {
	a, b := strsOf(xs, false), strsOf(ys, false)
	sort.Strings(a)
	sort.Strings(b)
	return strings.Join(a, ",") == strings.Join(b, ",") && len(a) == len(b)
}

// SortCmp: the result is a permutation of the input and no later element precedes an earlier one under cmp
func SortCmp[E any](f func([]E) []E, cmp func(a, b E) int) OpFunc {
	return func(c *Ctx, a []*SExp) string {
		preViews[E](c, a[:1])
		l := build[[]E](c, a[0])
		orig := append([]E(nil), l...)
		out := f(l)
		ok := sameMultiset(orig, out)
		for i := range out {
			for j := i + 1; j < len(out); j++ {
				ok = ok && cmp(out[j], out[i]) >= 0
			}
		}
		return Bool(ok) + ";"
	}
}

// MinCmp: (dir = 1: min, dir = -1: max) the result is an element of the list that no element precedes /
// follows under cmp; the default for an empty list
func MinCmp[E any](f func([]E, E) E, cmp func(a, b E) int, dir int) OpFunc {
	return func(c *Ctx, a []*SExp) string {
		preViews[E](c, a[:1], a[1])
		l := build[[]E](c, a[0])
		d := build[E](c, a[1])
		m := f(l, d)
		if len(l) == 0 {
			return Bool(same(m, d)) + ";"
		}
		ok := false
		for _, y := range l {
			ok = ok || same(y, m)
		}
		for _, y := range l {
			ok = ok && dir*cmp(y, m) >= 0
		}
		return Bool(ok) + ";"
	}
}

// Min2Cmp: the result is one of the two arguments and the other one does not precede / follow it
func Min2Cmp[E any](f func(E, E) E, cmp func(a, b E) int, dir int) OpFunc {
	return func(c *Ctx, a []*SExp) string {
		preViews[E](c, nil, a[0], a[1])
		x := build[E](c, a[0])
		y := build[E](c, a[1])
		m := f(x, y)
		ok := (same(m, x) && dir*cmp(y, m) >= 0) || (same(m, y) && dir*cmp(x, m) >= 0)
		return Bool(ok) + ";"
	}
}
