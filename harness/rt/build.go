package rt

import (
	"encoding/hex"
	"fmt"
	"math"
	"reflect"
	"sort"
	"strconv"
	"strings"
	"unsafe"
)

type key struct {
	addr int
	t    reflect.Type
}

// Ctx holds the address-id → object table for one op, so that equal ids denote the same object.
type Ctx struct {
	ptrs   map[key]reflect.Value
	slices map[key]reflect.Value // the full backing slice (len = cap)
	maps   map[key]reflect.Value
}

func NewCtx() *Ctx {
	return &Ctx{ptrs: map[key]reflect.Value{}, slices: map[key]reflect.Value{}, maps: map[key]reflect.Value{}}
}

func settable(f reflect.Value) reflect.Value {
	if f.CanSet() {
		return f
	}
	return reflect.NewAt(f.Type(), unsafe.Pointer(f.UnsafeAddr())).Elem()
}

// Build constructs a value of type t from the wire expression.
func (c *Ctx) Build(t reflect.Type, s *SExp) reflect.Value {
	v := reflect.New(t).Elem()
	c.buildInto(v, s)
	return v
}

func atoi(s string) int {
	n, err := strconv.Atoi(s)
	if err != nil {
		panic("rt: bad int " + s)
	}
	return n
}

func (c *Ctx) buildInto(dst reflect.Value, s *SExp) {
	dst = settable(dst)
	t := dst.Type()
	switch t.Kind() {
	case reflect.Bool:
		dst.SetBool(s.List[1].Atom == "1")
	case reflect.Int, reflect.Int8, reflect.Int16, reflect.Int32, reflect.Int64:
		n, err := strconv.ParseInt(s.List[1].Atom, 10, 64)
		if err != nil {
			panic(err)
		}
		dst.SetInt(n)
	case reflect.Uint, reflect.Uint8, reflect.Uint16, reflect.Uint32, reflect.Uint64, reflect.Uintptr:
		n, err := strconv.ParseUint(s.List[1].Atom, 10, 64)
		if err != nil {
			panic(err)
		}
		dst.SetUint(n)
	case reflect.Float32:
		b, _ := strconv.ParseUint(s.List[2].Atom, 10, 64)
		dst.SetFloat(float64(math.Float32frombits(uint32(b))))
		// SetFloat converts through float64, which keeps the float32 bit pattern for non-NaN values
	case reflect.Float64:
		b, _ := strconv.ParseUint(s.List[2].Atom, 10, 64)
		dst.SetFloat(math.Float64frombits(b))
	case reflect.Complex64:
		a, _ := strconv.ParseUint(s.List[2].Atom, 10, 64)
		b, _ := strconv.ParseUint(s.List[3].Atom, 10, 64)
		dst.SetComplex(complex(float64(math.Float32frombits(uint32(a))), float64(math.Float32frombits(uint32(b)))))
	case reflect.Complex128:
		a, _ := strconv.ParseUint(s.List[2].Atom, 10, 64)
		b, _ := strconv.ParseUint(s.List[3].Atom, 10, 64)
		dst.SetComplex(complex(math.Float64frombits(a), math.Float64frombits(b)))
	case reflect.String:
		if len(s.List) < 2 {
			dst.SetString("")
		} else {
			bs, err := hex.DecodeString(s.List[1].Atom)
			if err != nil {
				panic(err)
			}
			dst.SetString(string(bs))
		}
	case reflect.Ptr:
		if !s.IsL {
			dst.Set(reflect.Zero(t))
			return
		}
		k := key{atoi(s.List[1].Atom), t}
		if p, ok := c.ptrs[k]; ok {
			dst.Set(p)
			return
		}
		p := reflect.New(t.Elem())
		c.ptrs[k] = p
		c.buildInto(p.Elem(), s.List[2])
		dst.Set(p)
	case reflect.Slice:
		if !s.IsL {
			dst.Set(reflect.Zero(t))
			return
		}
		k := key{atoi(s.List[1].Atom), t}
		spare := atoi(s.List[2].Atom)
		n := len(s.List) - 3
		if full, ok := c.slices[k]; ok && full.Len() >= n {
			// same backing array: a (possibly shorter) view of it
			dst.Set(full.Slice3(0, n, full.Len()))
			return
		}
		full := reflect.MakeSlice(t, n+spare, n+spare)
		c.slices[k] = full
		for i := 0; i < n; i++ {
			c.buildInto(full.Index(i), s.List[3+i])
		}
		fillSpare(full, n)
		dst.Set(full.Slice3(0, n, n+spare))
	case reflect.Array:
		for i := 0; i < t.Len(); i++ {
			c.buildInto(dst.Index(i), s.List[1+i])
		}
	case reflect.Struct:
		// blank fields are not part of the wire form: they stay zero
		for i, j := 0, 1; i < t.NumField(); i++ {
			if t.Field(i).Name == "_" {
				continue
			}
			c.buildInto(dst.Field(i), s.List[j])
			j++
		}
	case reflect.Map:
		if !s.IsL {
			dst.Set(reflect.Zero(t))
			return
		}
		k := key{atoi(s.List[1].Atom), t}
		if m, ok := c.maps[k]; ok {
			dst.Set(m)
			return
		}
		m := reflect.MakeMap(t)
		c.maps[k] = m
		for _, e := range s.List[2:] {
			kv := c.Build(t.Key(), e.List[0])
			vv := c.Build(t.Elem(), e.List[1])
			m.SetMapIndex(kv, vv)
		}
		dst.Set(m)
	default:
		panic("rt: cannot build kind " + t.Kind().String())
	}
}

// Obs numbers heap objects in first-visit order and records their memory ranges.
type Obs struct {
	ids    map[uintptr]int
	Ranges []Range
	side   int
}

type Range struct {
	Lo, Hi uintptr
	Side   int
	What   string
}

func NewObs() *Obs { return &Obs{ids: map[uintptr]int{}} }

// SetSide tags subsequently observed ranges (0 = source, 1 = destination, …).
func (o *Obs) SetSide(s int) { o.side = s }

func (o *Obs) id(p uintptr) int {
	if i, ok := o.ids[p]; ok {
		return i
	}
	i := len(o.ids) + 1
	o.ids[p] = i
	return i
}

func readable(v reflect.Value) reflect.Value {
	if v.CanInterface() || !v.CanAddr() {
		return v
	}
	return reflect.NewAt(v.Type(), unsafe.Pointer(v.UnsafeAddr())).Elem()
}

// Observe prints a value in wire form with canonical address ids.
func (o *Obs) Observe(v reflect.Value) string {
	var sb strings.Builder
	o.obs(&sb, v)
	return sb.String()
}

func (o *Obs) obs(sb *strings.Builder, v reflect.Value) {
	t := v.Type()
	switch t.Kind() {
	case reflect.Bool:
		if v.Bool() {
			sb.WriteString("(b 1)")
		} else {
			sb.WriteString("(b 0)")
		}
	case reflect.Int, reflect.Int8, reflect.Int16, reflect.Int32, reflect.Int64:
		fmt.Fprintf(sb, "(i %d)", v.Int())
	case reflect.Uint, reflect.Uint8, reflect.Uint16, reflect.Uint32, reflect.Uint64, reflect.Uintptr:
		fmt.Fprintf(sb, "(i %d)", v.Uint())
	case reflect.Float32:
		fmt.Fprintf(sb, "(f 32 %d)", math.Float32bits(float32(v.Float())))
	case reflect.Float64:
		fmt.Fprintf(sb, "(f 64 %d)", math.Float64bits(v.Float()))
	case reflect.Complex64:
		c := v.Complex()
		fmt.Fprintf(sb, "(c 32 %d %d)", math.Float32bits(float32(real(c))), math.Float32bits(float32(imag(c))))
	case reflect.Complex128:
		c := v.Complex()
		fmt.Fprintf(sb, "(c 64 %d %d)", math.Float64bits(real(c)), math.Float64bits(imag(c)))
	case reflect.String:
		s := v.String()
		if s == "" {
			sb.WriteString("(s)")
		} else {
			fmt.Fprintf(sb, "(s %x)", s)
		}
	case reflect.Ptr:
		if v.IsNil() {
			sb.WriteString("nil")
			return
		}
		p := v.Pointer()
		sz := t.Elem().Size()
		id := 0 // zero-size targets have no identity
		if sz > 0 {
			o.Ranges = append(o.Ranges, Range{p, p + sz, o.side, "ptr"})
			id = o.id(p)
		}
		fmt.Fprintf(sb, "(p %d ", id)
		o.obs(sb, v.Elem())
		sb.WriteString(")")
	case reflect.Slice:
		if v.IsNil() {
			sb.WriteString("nil")
			return
		}
		p := v.Pointer()
		sz := t.Elem().Size() * uintptr(v.Cap())
		id := 0
		if sz > 0 {
			o.Ranges = append(o.Ranges, Range{p, p + sz, o.side, "slice"})
			id = o.id(p)
		}
		fmt.Fprintf(sb, "(sl %d %d", id, v.Cap()-v.Len())
		for i := 0; i < v.Len(); i++ {
			sb.WriteString(" ")
			o.obs(sb, v.Index(i))
		}
		sb.WriteString(")")
	case reflect.Array:
		sb.WriteString("(ar")
		for i := 0; i < v.Len(); i++ {
			sb.WriteString(" ")
			o.obs(sb, v.Index(i))
		}
		sb.WriteString(")")
	case reflect.Struct:
		sb.WriteString("(st")
		for i := 0; i < v.NumField(); i++ {
			if v.Type().Field(i).Name == "_" {
				continue
			}
			sb.WriteString(" ")
			o.obs(sb, v.Field(i))
		}
		sb.WriteString(")")
	case reflect.Map:
		if v.IsNil() {
			sb.WriteString("nil")
			return
		}
		p := v.Pointer()
		o.Ranges = append(o.Ranges, Range{p, p + 1, o.side, "map"})
		fmt.Fprintf(sb, "(m %d", o.id(p))
		type ent struct{ k, v string }
		var ents []ent
		it := v.MapRange()
		for it.Next() {
			// keys are printed with an id numbering of their own (the keys of the modelled corpus are pointer-free:
			// none is allocated); memory reached THROUGH a key (pointer keys, keys holding pointers) takes part in the
			// overlap test like any other
			ko := &Obs{ids: map[uintptr]int{}, side: o.side}
			var ks strings.Builder
			ko.obs(&ks, it.Key())
			o.Ranges = append(o.Ranges, ko.Ranges...)
			ents = append(ents, ent{ks.String(), ""})
		}
		sort.Slice(ents, func(i, j int) bool { return ents[i].k < ents[j].k })
		// values are observed in sorted key order so that id numbering is canonical
		keyOf := map[string]reflect.Value{}
		it = v.MapRange()
		for it.Next() {
			ko := &Obs{ids: map[uintptr]int{}}
			var ks strings.Builder
			ko.obs(&ks, it.Key())
			keyOf[ks.String()] = it.Value()
		}
		for _, e := range ents {
			sb.WriteString(" (" + e.k + " ")
			o.obs(sb, keyOf[e.k])
			sb.WriteString(")")
		}
		sb.WriteString(")")
	default:
		panic("rt: cannot observe kind " + t.Kind().String())
	}
}

// Overlaps reports whether any range of side a overlaps any range of side b.
func (o *Obs) Overlaps(a, b int) bool {
	for _, x := range o.Ranges {
		if x.Side != a {
			continue
		}
		for _, y := range o.Ranges {
			if y.Side != b {
				continue
			}
			if x.Lo < y.Hi && y.Lo < x.Hi {
				return true
			}
		}
	}
	return false
}

func Bool(b bool) string {
	if b {
		return "true"
	}
	return "false"
}

func Int(n int) string { return strconv.Itoa(n) }

func U64(n uint64) string { return strconv.FormatUint(n, 10) }

func b01(b bool) string {
	if b {
		return "1"
	}
	return "0"
}

// CopyAnswer formats the outcome of a deepcopy / clone op: the destination in canonical form, whether it is
// equal to the source in Go's sense (reflect.DeepEqual), whether it has the shape and the bits of the source
// (ShapeEqual), whether memory of the two overlaps, whether the source reads as before the call.
func CopyAnswer(dst string, eq, shape, alias, srcSame bool) string {
	return strings.ReplaceAll(dst, " ", ",") + ";eq=" + b01(eq) + ";shape=" + b01(shape) + ";alias=" + b01(alias) + ";src=" + b01(srcSame)
}

// fillSpare writes into the elements of a slice that lie beyond its length. Integers get a sentinel: code that
// writes there (an append that "pads" its argument) changes memory its argument shares with others. Elements that
// hold references get a stale copy of the last element within the length (what `copy(s[i:], s[i+1:]); s = s[:len(s)-1]`
// leaves behind): code that grows the slice into its capacity and works on what it finds there shares memory with
// an element that is part of the slice.
func fillSpare(full reflect.Value, n int) {
	for i := n; i < full.Len(); i++ {
		switch e := full.Index(i); e.Kind() {
		case reflect.Uint8, reflect.Uint16, reflect.Uint32, reflect.Uint64, reflect.Uint:
			e.SetUint(0xA5)
		case reflect.Int8, reflect.Int16, reflect.Int32, reflect.Int64, reflect.Int:
			e.SetInt(0x5A)
		case reflect.Slice, reflect.Ptr, reflect.Map, reflect.Struct, reflect.Array:
			if n > 0 {
				e.Set(full.Index(n - 1))
			}
		}
	}
}

// SpareDigest folds the elements beyond the length of every integer slice reachable from v (what Observe does
// not show) into one number. The entries of a map are combined by addition: their order is not defined.
func SpareDigest(v reflect.Value) uint64 {
	depth := 0
	var walk func(v reflect.Value) uint64
	walk = func(v reflect.Value) uint64 {
		h := uint64(1)
		// shared parts are walked once per path (a visited set would make the answer depend on the order in which the
		// entries of a map are met); the corpus values are acyclic, the bound is for safety
		if depth++; depth > 200 {
			depth--
			return h
		}
		defer func() { depth-- }()
		switch v.Kind() {
		case reflect.Ptr:
			if !v.IsNil() {
				h = 31*h + walk(v.Elem())
			}
		case reflect.Interface:
			if !v.IsNil() {
				h = 31*h + walk(v.Elem())
			}
		case reflect.Slice:
			if v.IsNil() {
				return h
			}
			for i := 0; i < v.Len(); i++ {
				h = 31*h + walk(v.Index(i))
			}
			full := v.Slice3(0, v.Cap(), v.Cap())
			for i := v.Len(); i < full.Len(); i++ {
				switch e := full.Index(i); e.Kind() {
				case reflect.Uint8, reflect.Uint16, reflect.Uint32, reflect.Uint64, reflect.Uint:
					h = 31*h + e.Uint() + 1
				case reflect.Int8, reflect.Int16, reflect.Int32, reflect.Int64, reflect.Int:
					h = 31*h + uint64(e.Int()) + 1
				}
			}
		case reflect.Array:
			for i := 0; i < v.Len(); i++ {
				h = 31*h + walk(v.Index(i))
			}
		case reflect.Struct:
			for i := 0; i < v.NumField(); i++ {
				h = 31*h + walk(v.Field(i))
			}
		case reflect.Map:
			it := v.MapRange()
			for it.Next() {
				h += walk(it.Value())
			}
		}
		return h
	}
	return walk(v)
}
