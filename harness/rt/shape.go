package rt

import (
	"math"
	"reflect"
	"unsafe"
)

// ShapeEqual reports whether x and y have the same dynamic type, the same shape and the same BITS
// (the meaning of Spec.shapeEq in lean/GoderiveModel/Spec/ShapeEq.lean):
//   - floats are the same iff their bit patterns are (a NaN equals a NaN of the same payload, +0 differs
//     from -0), complex numbers iff the bits of both parts are; booleans, integers, strings by value;
//   - the same nil-ness at every pointer, slice and map (nil differs from empty); pointers are followed
//     (addresses are not compared), slices and arrays have the same length and are compared by position,
//     structs field by field (blank fields are not part of a value);
//   - maps have the same number of entries and the entries pair up one to one: each entry of x, in
//     turn, uses up the first entry of y not yet used whose key has the same bits and whose value has the
//     same shape. No key is ever looked up (m[k] cannot find a NaN key), so entries under NaN keys are
//     paired like any other.
//
// It differs from reflect.DeepEqual exactly where Go's == is not bit identity: DeepEqual says false for
// a NaN leaf or a NaN map key even against itself (unless the two maps or pointers are identical), and true
// for +0 against -0.
func ShapeEqual(x, y interface{}) bool {
	vx, vy := reflect.ValueOf(x), reflect.ValueOf(y)
	if !vx.IsValid() || !vy.IsValid() {
		return vx.IsValid() == vy.IsValid()
	}
	if vx.Type() != vy.Type() {
		return false
	}
	return shapeEq(vx, vy, map[visit]bool{})
}

type visit struct {
	a, b unsafe.Pointer
	t    reflect.Type
}

func shapeEq(x, y reflect.Value, seen map[visit]bool) bool {
	t := x.Type()
	// a pair of objects that is under comparison further up the call stack is assumed equal (there are no cycles
	// in the corpora; this only guarantees termination). The mark is removed on the way out: a failed attempt
	// inside the pairing of map entries must not make a later comparison of the same two objects succeed.
	k := visit{t: t}
	enter := func() bool {
		k.a, k.b = x.UnsafePointer(), y.UnsafePointer()
		if seen[k] {
			return true
		}
		seen[k] = true
		return false
	}
	leave := func() { delete(seen, k) }
	switch t.Kind() {
	case reflect.Bool:
		return x.Bool() == y.Bool()
	case reflect.Int, reflect.Int8, reflect.Int16, reflect.Int32, reflect.Int64:
		return x.Int() == y.Int()
	case reflect.Uint, reflect.Uint8, reflect.Uint16, reflect.Uint32, reflect.Uint64, reflect.Uintptr:
		return x.Uint() == y.Uint()
	case reflect.Float32:
		return math.Float32bits(float32(x.Float())) == math.Float32bits(float32(y.Float()))
	case reflect.Float64:
		return math.Float64bits(x.Float()) == math.Float64bits(y.Float())
	case reflect.Complex64:
		a, b := x.Complex(), y.Complex()
		return math.Float32bits(float32(real(a))) == math.Float32bits(float32(real(b))) &&
			math.Float32bits(float32(imag(a))) == math.Float32bits(float32(imag(b)))
	case reflect.Complex128:
		a, b := x.Complex(), y.Complex()
		return math.Float64bits(real(a)) == math.Float64bits(real(b)) && math.Float64bits(imag(a)) == math.Float64bits(imag(b))
	case reflect.String:
		return x.String() == y.String()
	case reflect.Ptr:
		if x.IsNil() || y.IsNil() {
			return x.IsNil() == y.IsNil()
		}
		if enter() {
			return true
		}
		defer leave()
		return shapeEq(x.Elem(), y.Elem(), seen)
	case reflect.Slice:
		if x.IsNil() || y.IsNil() {
			return x.IsNil() == y.IsNil()
		}
		if x.Len() != y.Len() {
			return false
		}
		if x.Len() == 0 {
			return true
		}
		if enter() {
			return true
		}
		defer leave()
		for i := 0; i < x.Len(); i++ {
			if !shapeEq(x.Index(i), y.Index(i), seen) {
				return false
			}
		}
		return true
	case reflect.Array:
		for i := 0; i < x.Len(); i++ {
			if !shapeEq(x.Index(i), y.Index(i), seen) {
				return false
			}
		}
		return true
	case reflect.Struct:
		for i := 0; i < t.NumField(); i++ {
			if t.Field(i).Name == "_" {
				continue
			}
			if !shapeEq(x.Field(i), y.Field(i), seen) {
				return false
			}
		}
		return true
	case reflect.Map:
		if x.IsNil() || y.IsNil() {
			return x.IsNil() == y.IsNil()
		}
		if x.Len() != y.Len() {
			return false
		}
		if enter() {
			return true
		}
		defer leave()
		type ent struct {
			k, v reflect.Value
			used bool
		}
		var ys []ent
		for it := y.MapRange(); it.Next(); {
			ys = append(ys, ent{k: it.Key(), v: it.Value()})
		}
		for it := x.MapRange(); it.Next(); {
			found := false
			for i := range ys {
				if !ys[i].used && shapeEq(it.Key(), ys[i].k, seen) && shapeEq(it.Value(), ys[i].v, seen) {
					ys[i].used, found = true, true
					break
				}
			}
			if !found {
				return false
			}
		}
		return true // same number of entries and every one of x used up one of y
	default:
		panic("rt: ShapeEqual cannot compare kind " + t.Kind().String())
	}
}
