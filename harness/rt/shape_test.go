package rt

import (
	"math"
	"reflect"
	"testing"
)

type shT struct {
	F float64
	_ int32
	M map[float64]*int
	S []int
	p *shT
}

func ip(n int) *int { return &n }

func TestShapeEqual(t *testing.T) {
	nan1 := math.Float64frombits(0x7ff8000000000001)
	nan2 := math.Float64frombits(0x7ff8000000000002)
	mk := func(f float64, vals ...int) *shT {
		m := map[float64]*int{1.5: nil}
		for _, v := range vals {
			m[nan1] = ip(v) // every assignment under a NaN key is a new entry
		}
		return &shT{F: f, M: m, S: []int{}, p: &shT{}}
	}
	a, b := mk(nan1, 1, 2), mk(nan1, 2, 1)
	if reflect.DeepEqual(a, b) || reflect.DeepEqual(a, mk(nan1, 1, 2)) {
		t.Fatal("DeepEqual accepts NaN")
	}
	if !ShapeEqual(a, b) || !ShapeEqual(a, a) {
		t.Fatal("same entries in another order must be accepted")
	}
	for name, c := range map[string]*shT{
		"lost entry":       mk(nan1, 1),
		"extra entry":      mk(nan1, 1, 2, 2),
		"duplicated value": mk(nan1, 1, 1),
		"other payload":    mk(nan2, 1, 2),
	} {
		if ShapeEqual(a, c) || ShapeEqual(c, a) {
			t.Fatal(name)
		}
	}
	c := mk(nan1, 1, 2)
	c.S = nil
	if ShapeEqual(a, c) {
		t.Fatal("nil slice against empty slice")
	}
	c = mk(nan1, 1, 2)
	c.p = nil
	if ShapeEqual(a, c) {
		t.Fatal("nil pointer (unexported field)")
	}
	c = mk(nan1, 1, 2)
	delete(c.M, 1.5)
	c.M[nan2] = nil
	if ShapeEqual(a, c) {
		t.Fatal("key bits")
	}
	if ShapeEqual(0.0, math.Copysign(0, -1)) || !reflect.DeepEqual(0.0, math.Copysign(0, -1)) {
		t.Fatal("signed zero")
	}
	if !ShapeEqual(complex(nan1, 1), complex(nan1, 1)) || ShapeEqual(complex(nan1, 1), complex(nan2, 1)) {
		t.Fatal("complex")
	}
	if !ShapeEqual(float32(math.Float32frombits(0x7fc00003)), float32(math.Float32frombits(0x7fc00003))) ||
		ShapeEqual(float32(math.Float32frombits(0x7fc00003)), float32(math.Float32frombits(0x7fc00004))) {
		t.Fatal("float32 payload")
	}
	// a cycle terminates
	x, y := &shT{}, &shT{}
	x.p, y.p = x, y
	if !ShapeEqual(x, y) {
		t.Fatal("cycle")
	}
	if ShapeEqual(x, 1) || !ShapeEqual(nil, nil) {
		t.Fatal("types")
	}
}
