package rt

import "strconv"

// FuncOps are the op names of the function-plumbing / error-chaining family (C15, C16).
var FuncOps = []string{
	"curry", "flip", "apply", "uncurry", "uncurrycurry", "tuple", "nest3", "nest4",
	"compose", "fmape", "joine", "bind", "traverse", "toerror",
}

// IntLists collects the parts of an op line that are lists of integers with a head atom:
// `(args 1 2) (fail) (list 3)` → {"args": [1 2], "fail": [], "list": [3]}. Other parts (signatures,
// flags with non-numeric members) are skipped: the generated package already knows its signature.
func IntLists(a []*SExp) map[string][]int {
	out := map[string][]int{}
	for _, e := range a {
		h := e.Head()
		if h == "" {
			continue
		}
		ns := make([]int, 0, len(e.List)-1)
		ok := true
		for _, x := range e.List[1:] {
			if x.IsL {
				ok = false
				break
			}
			n, err := strconv.Atoi(x.Atom)
			if err != nil {
				ok = false
				break
			}
			ns = append(ns, n)
		}
		if ok {
			out[h] = ns
		}
	}
	return out
}

// RegFuncs registers the entry point of one generated package for every op of the family. The
// package itself does not import rt: it gets the integer lists of the op line and returns the
// observable outcome as a string.
func RegFuncs(pkg string, run func(op string, in map[string][]int) string) {
	for _, op := range FuncOps {
		op := op
		Reg(op, pkg, func(c *Ctx, a []*SExp) string { return run(op, IntLists(a)) })
	}
}
