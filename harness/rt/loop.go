package rt

import (
	"bufio"
	"fmt"
	"os"
	"reflect"
)

// OpFunc runs one op on already parsed arguments and returns the observable answer.
type OpFunc func(c *Ctx, args []*SExp) string

var ops = map[string]OpFunc{}
var Types = map[string]reflect.Type{}

func Reg(op, ty string, f OpFunc)         { ops[op+" "+ty] = f }
func RegType(name string, t reflect.Type) { Types[name] = t }

func runOne(f OpFunc, args []*SExp) (res string) {
	defer func() {
		if r := recover(); r != nil {
			res = "panic"
			if os.Getenv("VERIF_DEBUG") != "" {
				res = fmt.Sprintf("panic:%v", r)
			}
		}
	}()
	return f(NewCtx(), args)
}

// Main reads `op <id> <name> <type> <args…>` lines and prints `<id> impl=<answer>`.
func Main() {
	in := bufio.NewReaderSize(os.Stdin, 1<<20)
	out := bufio.NewWriter(os.Stdout)
	defer out.Flush()
	for {
		line, err := in.ReadString('\n')
		if len(line) > 0 {
			es, perr := ParseAll(line)
			if perr != nil {
				fmt.Fprintln(out, "bad-line")
			} else if len(es) >= 4 && es[0].Atom == "op" {
				f, ok := ops[es[2].Atom+" "+es[3].Atom]
				if !ok {
					fmt.Fprintf(out, "%s impl=no-such-op\n", es[1].Atom)
				} else {
					fmt.Fprintf(out, "%s impl=%s\n", es[1].Atom, runOne(f, es[4:]))
				}
				out.Flush()
			}
		}
		if err != nil {
			return
		}
	}
}
