package gostring

import (
	"fmt"
	"go/ast"
	"go/parser"
	"go/token"
	"reflect"
	"sort"
	"strings"
)

// Skeleton parses a text returned by a derived GoString function (go/parser) and prints its
// statement skeleton — which statements, in which order, with which field indices / element indices /
// key variables, and which expression forms (closure call, `%#v` composite literal with its element
// count, `&v` closure, leaf literal) — with every leaf literal as `L` and every type name dropped.
// The Lean driver prints the same skeleton of `goString env T v`; the two must be identical, which
// ties the model to the text syntactically (branch by branch), not only through its value.
// t is the static type of the whole expression (field names are resolved to indices through it).
func Skeleton(text string, t reflect.Type) (res string) {
	defer func() {
		if r := recover(); r != nil {
			res = "?" + strings.ReplaceAll(fmt.Sprint(r), " ", "_")
		}
	}()
	e, err := parser.ParseExpr(text)
	if err != nil {
		return "?syntax"
	}
	return skExpr(e, t)
}

func isIdent(e ast.Expr, name string) bool {
	id, ok := e.(*ast.Ident)
	return ok && id.Name == name
}

func keyVar(e ast.Expr) (string, bool) {
	id, ok := e.(*ast.Ident)
	if ok && strings.HasPrefix(id.Name, "key") {
		return "k" + id.Name[3:], true
	}
	return "", false
}

func isLeaf(e ast.Expr) bool {
	switch x := e.(type) {
	case *ast.BasicLit:
		return true
	case *ast.Ident:
		return x.Name == "true" || x.Name == "false"
	case *ast.UnaryExpr:
		return (x.Op == token.SUB || x.Op == token.ADD) && isLeaf(x.X)
	case *ast.ParenExpr:
		return isLeaf(x.X)
	case *ast.BinaryExpr:
		return (x.Op == token.ADD || x.Op == token.SUB) && isLeaf(x.X) && isLeaf(x.Y)
	}
	return false
}

func skExpr(e ast.Expr, t reflect.Type) string {
	if isLeaf(e) {
		return "L"
	}
	switch x := e.(type) {
	case *ast.CompositeLit:
		for _, el := range x.Elts {
			if kv, ok := el.(*ast.KeyValueExpr); ok {
				if !isLeaf(kv.Key) || !isLeaf(kv.Value) {
					panic("non-leaf map literal entry")
				}
			} else if !isLeaf(el) {
				panic("non-leaf literal element")
			}
		}
		switch t.Kind() {
		case reflect.Slice:
			return fmt.Sprintf("S%d", len(x.Elts))
		case reflect.Array:
			return fmt.Sprintf("A%d", len(x.Elts))
		case reflect.Map:
			return fmt.Sprintf("M%d", len(x.Elts))
		}
		panic("composite literal at kind " + t.Kind().String())
	case *ast.UnaryExpr:
		if cl, ok := x.X.(*ast.CompositeLit); ok && x.Op == token.AND && len(cl.Elts) == 0 {
			return "&{}"
		}
	case *ast.CallExpr:
		fl, ok := x.Fun.(*ast.FuncLit)
		if !ok {
			break
		}
		np := 0
		if fl.Type.Params != nil {
			np = len(fl.Type.Params.List)
		}
		if np == 1 && len(x.Args) == 1 && isLeaf(x.Args[0]) && len(fl.Body.List) == 1 {
			// func (v B) *B { return &v }(lit)
			if r, ok := fl.Body.List[0].(*ast.ReturnStmt); ok && len(r.Results) == 1 {
				if u, ok := r.Results[0].(*ast.UnaryExpr); ok && u.Op == token.AND && isIdent(u.X, "v") {
					return "&L"
				}
			}
			break
		}
		if np == 0 && len(x.Args) == 0 {
			return "f{" + skBody(fl.Body.List, t) + "}"
		}
	}
	panic(fmt.Sprintf("unrecognised expression %T", e))
}

func skBody(stmts []ast.Stmt, t reflect.Type) string {
	// Map entries are printed in Go's (random) map iteration order: the entry statements (`this[lit] = e`,
	// or the pair `keyN := e; this[keyN] = e` with N dropped) are sorted, on both sides of the tie.
	var out, ents []string
	pending := ""
	var this reflect.Type
	for _, s := range stmts {
		switch x := s.(type) {
		case *ast.AssignStmt:
			if len(x.Lhs) != 1 || len(x.Rhs) != 1 {
				panic("multi-assignment")
			}
			lhs, rhs := x.Lhs[0], x.Rhs[0]
			if x.Tok == token.DEFINE {
				if isIdent(lhs, "this") {
					switch r := rhs.(type) {
					case *ast.UnaryExpr: // this := &T{}
						if cl, ok := r.X.(*ast.CompositeLit); !ok || r.Op != token.AND || len(cl.Elts) != 0 {
							panic("bad this := &…")
						}
						this = t
						if t.Kind() == reflect.Struct {
							this = reflect.PointerTo(t)
						}
						out = append(out, "this:=&{}")
					case *ast.CallExpr:
						switch {
						case isIdent(r.Fun, "new") && len(r.Args) == 1:
							this = t
							out = append(out, "this:=new")
						case isIdent(r.Fun, "make") && len(r.Args) == 2:
							this = t
							out = append(out, "this:=make("+r.Args[1].(*ast.BasicLit).Value+")")
						case isIdent(r.Fun, "make") && len(r.Args) == 1:
							this = t
							out = append(out, "this:=make")
						default:
							panic("bad this := call")
						}
					case *ast.CompositeLit: // this := T{}
						if len(r.Elts) != 0 {
							panic("this := T{…} with elements")
						}
						this = t
						out = append(out, "this:={}")
					default:
						panic("bad this := …")
					}
					continue
				}
				if _, ok := keyVar(lhs); ok {
					pending = "k:=" + skExpr(rhs, this.Key())
					continue
				}
				panic("unknown definition")
			}
			switch l := lhs.(type) {
			case *ast.SelectorExpr: // this.F = e
				if !isIdent(l.X, "this") {
					panic("selector on non-this")
				}
				st := this.Elem()
				f, ok := st.FieldByName(l.Sel.Name)
				if !ok || len(f.Index) != 1 {
					panic("no direct field " + l.Sel.Name)
				}
				idx := 0 // position among the non-blank fields (blank fields do not exist in the value universe)
				for k := 0; k < f.Index[0]; k++ {
					if st.Field(k).Name != "_" {
						idx++
					}
				}
				out = append(out, fmt.Sprintf(".%d=%s", idx, skExpr(rhs, f.Type)))
			case *ast.StarExpr: // *this = e
				if !isIdent(l.X, "this") {
					panic("deref of non-this")
				}
				out = append(out, "*="+skExpr(rhs, this.Elem()))
			case *ast.IndexExpr: // this[i] = e | this[lit] = e | this[keyN] = e
				if !isIdent(l.X, "this") {
					panic("index of non-this")
				}
				if _, ok := keyVar(l.Index); ok {
					if pending == "" {
						panic("key variable used before its definition")
					}
					ents = append(ents, pending+";[k]="+skExpr(rhs, this.Elem()))
					pending = ""
				} else if this.Kind() == reflect.Map {
					if !isLeaf(l.Index) {
						panic("non-leaf map key")
					}
					ents = append(ents, "[L]="+skExpr(rhs, this.Elem()))
				} else {
					out = append(out, "["+l.Index.(*ast.BasicLit).Value+"]="+skExpr(rhs, this.Elem()))
				}
			default:
				panic("unknown assignment target")
			}
		case *ast.ReturnStmt:
			if len(x.Results) != 1 {
				panic("return arity")
			}
			r := x.Results[0]
			switch {
			case isIdent(r, "this"):
				out = append(out, "ret")
			case isIdent(r, "nil"):
				out = append(out, "retnil")
			default:
				if st, ok := r.(*ast.StarExpr); ok && isIdent(st.X, "this") {
					out = append(out, "ret*")
				} else {
					out = append(out, "ret="+skExpr(r, t))
				}
			}
		default:
			panic(fmt.Sprintf("unknown statement %T", s))
		}
	}
	if pending != "" || len(out) == 0 {
		panic("dangling key definition or empty body")
	}
	sort.Strings(ents)
	all := append(append(append([]string{}, out[:len(out)-1]...), ents...), out[len(out)-1])
	return strings.Join(all, ";")
}
