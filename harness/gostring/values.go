package gostring

import (
	"math"
	"math/rand"
	"strconv"

	"verifharness/ty"
)

func iv(n int64) *ty.Val  { return &ty.Val{K: ty.VInt, Int: strconv.FormatInt(n, 10)} }
func uv(n uint64) *ty.Val { return &ty.Val{K: ty.VInt, Int: strconv.FormatUint(n, 10)} }
func sv(s string) *ty.Val { return &ty.Val{K: ty.VStr, Str: []byte(s)} }
func f64(f float64) *ty.Val {
	return &ty.Val{K: ty.VFlt, W: 64, Bits: math.Float64bits(f)}
}
func f32(f float32) *ty.Val {
	return &ty.Val{K: ty.VFlt, W: 32, Bits: uint64(math.Float32bits(f))}
}

var strs = []string{
	"", "a", "\"", "\\", "`", "'", "a\nb", "\t\r\n", "\x00", "a\x00b", "\xff", "\xff\xfe\xfd", "\xc3", "\xe2\x82", "é", " ",
	"\ufeff", "\ufffd", "\U0001F600", "\U0010FFFF", "\xed\xa0\x80", "%d%s%%", "%!v(MISSING)", "\x7f", "\x1b[0m", "\\n", "\\x41", "\\u00e9",
	"${x}", "`+\"`", "}()\n", "this.A = 1\n", "/*", "//", "0x", "nil", "a\"b\nc\xffd`e",
	"the quick brown fox jumps over the lazy dog; THE QUICK BROWN FOX JUMPS OVER THE LAZY DOG 0123456789",
}

var f64s = []float64{
	0, math.Copysign(0, -1), 1, -1, 1.5, -2.25, 0.1, 0.2, 0.30000000000000004, 1.0 / 3, 5e-324, -5e-324, 2.2250738585072014e-308,
	2.225073858507201e-308, math.MaxFloat64, -math.MaxFloat64, 1e21, 1e20, 123456789.125, 1e-7, 1e-5, 9007199254740992, 9007199254740993,
	4.35, 100, 1e6, 1e100, math.Pi, 42,
}

var f32s = []float32{
	0, float32(math.Copysign(0, -1)), 1, -1, 1.5, -2.25, 0.1, 0.2, 1.0 / 3, 1e-45, -1e-45, 1.17549435e-38, 1.1754942e-38,
	math.MaxFloat32, -math.MaxFloat32, 16777216, 16777217, 1e21, 1e-7, 3.4e38, 42, 0.3,
}

// Boundary returns the extra boundary values for a basic type (finite floats only).
func Boundary(b string) []*ty.Val {
	var out []*ty.Val
	ints := func(bits uint) {
		lo, hi := int64(-1)<<(bits-1), int64(1)<<(bits-1)-1
		for _, n := range []int64{0, 1, -1, lo, hi, lo + 1, hi - 1, 10, -10, 97, 39, 92, 34} {
			if n >= lo && n <= hi {
				out = append(out, iv(n))
			}
		}
	}
	uints := func(bits uint) {
		hi := uint64(math.MaxUint64)
		if bits < 64 {
			hi = uint64(1)<<bits - 1
		}
		for _, n := range []uint64{0, 1, hi, hi - 1, hi/2 + 1, hi / 2, 9, 10, 15, 16, 255, 256, 0xdeadbeef, 1 << 63, 34, 92} {
			if n <= hi {
				out = append(out, uv(n))
			}
		}
	}
	switch b {
	case "bool":
		return []*ty.Val{{K: ty.VBool}, {K: ty.VBool, Bool: true}}
	case "int", "int64":
		ints(64)
	case "int8":
		ints(8)
	case "int16":
		ints(16)
	case "int32", "rune":
		ints(32)
		out = append(out, iv(0x10FFFF), iv(0x110000), iv(0xD800), iv(0xDFFF), iv(0xFFFD), iv('\n'), iv('\''), iv('\\'))
	case "uint", "uint64", "uintptr":
		uints(64)
	case "uint8", "byte":
		uints(8)
	case "uint16":
		uints(16)
	case "uint32":
		uints(32)
	case "float64":
		for _, f := range f64s {
			out = append(out, f64(f))
		}
	case "float32":
		for _, f := range f32s {
			out = append(out, f32(f))
		}
	case "complex128":
		fs := []float64{0, math.Copysign(0, -1), 1.5, -2.25, 0.1, 5e-324, math.MaxFloat64, 1e21, -1}
		for i, a := range fs {
			for j, c := range fs {
				if (i+2*j)%3 == 0 || i == j {
					out = append(out, &ty.Val{K: ty.VCplx, W: 64, Bits: math.Float64bits(a), Bits2: math.Float64bits(c)})
				}
			}
		}
	case "complex64":
		fs := []float32{0, float32(math.Copysign(0, -1)), 1.5, -2.25, 0.1, 1e-45, math.MaxFloat32, -1}
		for i, a := range fs {
			for j, c := range fs {
				if (i+2*j)%3 == 0 || i == j {
					out = append(out, &ty.Val{K: ty.VCplx, W: 32, Bits: uint64(math.Float32bits(a)), Bits2: uint64(math.Float32bits(c))})
				}
			}
		}
	case "string":
		for _, s := range strs {
			out = append(out, sv(s))
		}
	default:
		panic("gostring: no boundary pool for " + b)
	}
	return out
}

func finiteBits(w int, bits uint64) bool {
	if w == 32 {
		return uint32(bits)&0x7f800000 != 0x7f800000
	}
	return bits&0x7ff0000000000000 != 0x7ff0000000000000
}

// Finite: no NaN and no ±Inf anywhere in the value ("values with finite floats").
func Finite(v *ty.Val) bool {
	switch v.K {
	case ty.VFlt:
		return finiteBits(v.W, v.Bits)
	case ty.VCplx:
		return finiteBits(v.W, v.Bits) && finiteBits(v.W, v.Bits2)
	}
	for _, e := range v.Elems {
		if !Finite(e) {
			return false
		}
	}
	return true
}

// goEq is Go's == on pointer-free values (to keep map keys distinct after a substitution).
func goEq(a, b *ty.Val) bool {
	if a.K != b.K {
		return false
	}
	fz := func(w int, x uint64) uint64 { // -0 ↦ +0
		if (w == 32 && x == 0x80000000) || (w == 64 && x == 1<<63) {
			return 0
		}
		return x
	}
	switch a.K {
	case ty.VBool:
		return a.Bool == b.Bool
	case ty.VInt:
		return a.Int == b.Int
	case ty.VFlt:
		return fz(a.W, a.Bits) == fz(b.W, b.Bits)
	case ty.VCplx:
		return fz(a.W, a.Bits) == fz(b.W, b.Bits) && fz(a.W, a.Bits2) == fz(b.W, b.Bits2)
	case ty.VStr:
		return string(a.Str) == string(b.Str)
	case ty.VArr, ty.VStruct:
		if len(a.Elems) != len(b.Elems) {
			return false
		}
		for i := range a.Elems {
			if !goEq(a.Elems[i], b.Elems[i]) {
				return false
			}
		}
		return true
	}
	return false
}

// Subst returns a copy of v (a value of type t) in which every leaf is, with probability p, replaced
// by a boundary value of its basic type. Map keys stay distinct under ==: an entry whose new key
// collides with an earlier one keeps its old key.
func Subst(env *ty.Env, rng *rand.Rand, t *ty.Ty, v *ty.Val, p float64) *ty.Val {
	u := env.Under(t)
	switch u.K {
	case ty.Basic:
		if rng.Float64() < p {
			bs := Boundary(u.B)
			return bs[rng.Intn(len(bs))]
		}
		return v
	}
	if v.K == ty.VNil {
		return v
	}
	c := *v
	c.Elems = make([]*ty.Val, len(v.Elems))
	switch u.K {
	case ty.Ptr, ty.Slice, ty.Array:
		for i, e := range v.Elems {
			c.Elems[i] = Subst(env, rng, u.Elem, e, p)
		}
	case ty.Struct:
		for i, e := range v.Elems {
			c.Elems[i] = Subst(env, rng, u.Fields[i].T, e, p)
		}
	case ty.Map:
		for i := 0; i+1 < len(v.Elems); i += 2 {
			k := Subst(env, rng, u.Key, v.Elems[i], p)
			for j := 0; j < i; j += 2 {
				if c.Elems[j] != nil && goEq(k, c.Elems[j]) {
					k = v.Elems[i]
					break
				}
			}
			for j := 0; j < i; j += 2 {
				if c.Elems[j] != nil && goEq(k, c.Elems[j]) { // the old key collides with a substituted earlier key: drop the entry
					k = nil
					break
				}
			}
			if k == nil {
				c.Elems[i], c.Elems[i+1] = nil, nil
				continue
			}
			c.Elems[i] = k
			c.Elems[i+1] = Subst(env, rng, u.Elem, v.Elems[i+1], p)
		}
		var es []*ty.Val
		for _, e := range c.Elems {
			if e != nil {
				es = append(es, e)
			}
		}
		c.Elems = es
	}
	return &c
}

// Wide returns a few larger values of t built from boundary leaves: long slices, maps with many
// entries, deep pointer chains are reached through the type; this adds breadth.
func Wide(env *ty.Env, rng *rand.Rand, t *ty.Ty, depth int) *ty.Val {
	u := env.Under(t)
	switch u.K {
	case ty.Basic:
		bs := Boundary(u.B)
		return bs[rng.Intn(len(bs))]
	case ty.Ptr:
		if depth <= 0 || rng.Intn(5) == 0 {
			return &ty.Val{K: ty.VNil}
		}
		return &ty.Val{K: ty.VPtr, Elems: []*ty.Val{Wide(env, rng, u.Elem, depth-1)}}
	case ty.Slice:
		if depth <= 0 || rng.Intn(6) == 0 {
			return &ty.Val{K: ty.VNil}
		}
		n := rng.Intn(5)
		c := &ty.Val{K: ty.VSlice, Spare: rng.Intn(2), Elems: []*ty.Val{}}
		for i := 0; i < n; i++ {
			c.Elems = append(c.Elems, Wide(env, rng, u.Elem, depth-1))
		}
		return c
	case ty.Array:
		c := &ty.Val{K: ty.VArr, Elems: []*ty.Val{}}
		for i := 0; i < u.N; i++ {
			c.Elems = append(c.Elems, Wide(env, rng, u.Elem, depth))
		}
		return c
	case ty.Struct:
		c := &ty.Val{K: ty.VStruct, Elems: []*ty.Val{}}
		for _, f := range u.Fields {
			c.Elems = append(c.Elems, Wide(env, rng, f.T, depth))
		}
		return c
	case ty.Map:
		if depth <= 0 || rng.Intn(6) == 0 {
			return &ty.Val{K: ty.VNil}
		}
		n := rng.Intn(5)
		c := &ty.Val{K: ty.VMap, Elems: []*ty.Val{}}
	next:
		for i := 0; i < n; i++ {
			k := Wide(env, rng, u.Key, depth-1)
			for j := 0; j < len(c.Elems); j += 2 {
				if goEq(k, c.Elems[j]) {
					continue next
				}
			}
			c.Elems = append(c.Elems, k, Wide(env, rng, u.Elem, depth-1))
		}
		return c
	}
	panic("gostring: Wide on unsupported kind")
}

// Alias returns a copy of an instantiated value in which pointer targets with identical contents are
// made the very same object (same address ids throughout the shared subtree), or nil when the value has
// no two such pointers. The text cannot (and need not) reproduce the sharing: the evaluated value is a
// tree that is still structurally equal.
func Alias(v *ty.Val) *ty.Val {
	erase := func(x *ty.Val) string {
		c := x.Clone()
		var z func(*ty.Val)
		z = func(y *ty.Val) {
			y.Addr = 0
			for _, e := range y.Elems {
				z(e)
			}
		}
		z(c)
		return c.Wire()
	}
	first := map[string]*ty.Val{}
	changed := false
	var walk func(x *ty.Val, inKey bool) *ty.Val
	walk = func(x *ty.Val, inKey bool) *ty.Val {
		if x.K == ty.VPtr && !inKey {
			k := erase(x)
			if f, ok := first[k]; ok {
				changed = true
				return f.Clone()
			}
		}
		c := *x
		if x.Elems != nil {
			c.Elems = make([]*ty.Val, len(x.Elems))
			for i, e := range x.Elems {
				c.Elems[i] = walk(e, inKey || (x.K == ty.VMap && i%2 == 0))
			}
		}
		if x.K == ty.VPtr && !inKey {
			first[erase(x)] = &c
		}
		return &c
	}
	out := walk(v, false)
	if !changed {
		return nil
	}
	return out
}

// CollidingKeys returns distinct values of the (comparable) key type K whose fmt %v renderings coincide —
// `{a b c}` for {"a b","c"} and {"a","b c"}, `[  ]` for {""," "} and {" ",""} — or nil when K has no two
// string components next to each other. A printer that finds keys back through their printed form folds
// such keys into one.
func CollidingKeys(env *ty.Env, K *ty.Ty, base *ty.Val) []*ty.Val {
	u := env.Under(K)
	var pos []int
	switch u.K {
	case ty.Array:
		if eb := env.Under(u.Elem); eb.K == ty.Basic && eb.B == "string" && u.N >= 2 {
			pos = []int{0, 1}
		}
	case ty.Struct:
		for i := 0; i+1 < len(u.Fields); i++ {
			a, b := env.Under(u.Fields[i].T), env.Under(u.Fields[i+1].T)
			if a.K == ty.Basic && a.B == "string" && b.K == ty.Basic && b.B == "string" {
				pos = []int{i, i + 1}
				break
			}
		}
	}
	if pos == nil || base == nil || len(base.Elems) <= pos[1] {
		return nil
	}
	var out []*ty.Val
	for _, pr := range [][2]string{{"a b", "c"}, {"a", "b c"}, {"", " "}, {" ", ""}, {"a b c", ""}} {
		c := base.Clone()
		c.Elems[pos[0]] = sv(pr[0])
		c.Elems[pos[1]] = sv(pr[1])
		out = append(out, c)
	}
	return out
}
