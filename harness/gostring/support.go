// Package gostring holds the C06 helpers: which corpus types plugin/gostring supports, the extra
// boundary values of the property's quantifier, and the runtime of the stage-2 program (the program
// assembled from the texts the derived GoString functions returned).
package gostring

import (
	"verifharness/gen"
	"verifharness/ty"
)

// Supported: the type grammar of C06 — "every supported type with exported fields":
//   - no chan / func / interface anywhere (genStatement and genField have no case for them);
//   - no struct with an unexported field anywhere (the returned text assigns `this.f = …`, which no
//     other package may write; for a pointer to an imported struct the generator itself refuses);
//   - map keys are comparable (a Go requirement).
//
// Everything else the generator has a case for is in: unnamed structs (top level, pointee, field),
// pointers to pointers, named non-struct types as components, arrays of any length.
func Supported(env *ty.Env, t *ty.Ty) bool {
	ok := true
	gen.Walk(env, t, gen.CtxTop, map[int]bool{}, func(x *ty.Ty, ctx int) {
		switch x.K {
		case ty.Chan, ty.Func, ty.Iface:
			ok = false
		case ty.Named:
			if env.Decls[x.N].Priv {
				ok = false
			}
		case ty.Struct:
			for _, f := range x.Fields {
				if f.Name[0] >= 'a' && f.Name[0] <= 'z' || f.Name[0] == '_' {
					ok = false
				}
			}
		}
		if ctx == gen.CtxKey && !env.CanEqual(x) {
			ok = false
		}
	})
	return ok
}
