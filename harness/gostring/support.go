// Package gostring holds the C06 helpers: which corpus types plugin/gostring supports, the extra
// boundary values of the property's quantifier, and the runtime of the stage-2 program (the program
// assembled from the texts the derived GoString functions returned).
package gostring

import (
	"verifharness/gen"
	"verifharness/ty"
)

// Supported: the type grammar of C06 — "every supported type with exported fields":
//   - no chan / func / interface anywhere (genStatement and genField have no case for them);
//   - no struct with an unexported field anywhere (the returned text assigns `this.f = …`, which no
//     other package may write; for a pointer to an imported struct the generator itself refuses);
//   - map keys are comparable (a Go requirement).
//
// Everything else the generator has a case for is in: unnamed structs (top level, pointee, field),
// pointers to pointers, named non-struct types as components, arrays of any length.
func Supported(env *ty.Env, t *ty.Ty) bool { return supported(env, t, false) }

// LocalPkg is the derive package that also declares types of its own (as gen.LocalPkg).
const LocalPkg = "q0"

// SupportedX is Supported, except that declared struct types of the derive package itself may have
// unexported fields: the generator accepts those (only imported structs with private fields are refused),
// but the text then assigns `this.f = …`, which an importing package cannot compile. Such types are outside
// the property's quantifier ("exported fields"); their ops are correspondence-only (`gostringx`).
func SupportedX(env *ty.Env, t *ty.Ty) bool { return supported(env, t, true) }

// MentionsLocal: some declared type of the derive package LocalPkg is reachable from t.
func MentionsLocal(env *ty.Env, t *ty.Ty) bool {
	local := false
	gen.Walk(env, t, gen.CtxTop, map[int]bool{}, func(x *ty.Ty, ctx int) {
		if x.K == ty.Named && env.Decls[x.N].Pkg == LocalPkg {
			local = true
		}
	})
	return local
}

func supported(env *ty.Env, t *ty.Ty, localPriv bool) bool {
	ok := true
	gen.Walk(env, t, gen.CtxTop, map[int]bool{}, func(x *ty.Ty, ctx int) {
		switch x.K {
		case ty.Chan, ty.Func, ty.Iface:
			ok = false
		case ty.Named:
			if env.Decls[x.N].Priv && !(localPriv && env.Decls[x.N].Pkg == LocalPkg) {
				ok = false
			}
		case ty.Struct:
			for _, f := range x.Fields {
				if f.Name[0] >= 'a' && f.Name[0] <= 'z' || f.Name[0] == '_' {
					ok = false
				}
			}
		}
		if ctx == gen.CtxKey && !env.CanEqual(x) {
			ok = false
		}
	})
	return ok
}
