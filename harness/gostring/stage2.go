package gostring

import (
	"bufio"
	"encoding/hex"
	"fmt"
	"os"
	"reflect"
	"strconv"
	"strings"

	"verifharness/rt"
)

// Main2 is the main loop of the stage-2 program (the program assembled from the texts returned by
// the derived GoString functions). fns[k] evaluates the k-th distinct text; the index file maps an
// op id to k, or to a word (`panic1`: the derived function panicked, `compile-error`: the Go compiler
// rejected the text). For every `op <id> gostring <T> <wire>` line on stdin it prints
//
//	<id> impl=<canonical observation of the evaluated value>;skel=<skeleton of the text>;eq=<reflect.DeepEqual(original, evaluated)>
//
// where the original is rebuilt from its wire form and the skeleton (see Skeleton) is computed from the
// text itself (stage-1 answers file: lines `<id> impl=<hex of the text>`).
func Main2(types map[string]reflect.Type, fns []func() reflect.Value, idxPath, stage1Path string) {
	texts := map[string]string{}
	if f1, err := os.Open(stage1Path); err == nil {
		sc := bufio.NewScanner(f1)
		sc.Buffer(make([]byte, 1<<20), 1<<28)
		for sc.Scan() {
			p := strings.SplitN(sc.Text(), " impl=", 2)
			if len(p) == 2 {
				if b, err := hex.DecodeString(p[1]); err == nil {
					texts[p[0]] = string(b)
				}
			}
		}
		f1.Close()
	} else {
		fmt.Fprintln(os.Stderr, err)
		os.Exit(2)
	}
	idx := map[string]string{}
	f, err := os.Open(idxPath)
	if err != nil {
		fmt.Fprintln(os.Stderr, err)
		os.Exit(2)
	}
	sc := bufio.NewScanner(f)
	sc.Buffer(make([]byte, 1<<20), 1<<26)
	for sc.Scan() {
		p := strings.Fields(sc.Text())
		if len(p) == 2 {
			idx[p[0]] = p[1]
		}
	}
	f.Close()
	in := bufio.NewReaderSize(os.Stdin, 1<<20)
	out := bufio.NewWriter(os.Stdout)
	defer out.Flush()
	for {
		line, err := in.ReadString('\n')
		if len(line) > 0 {
			es, perr := rt.ParseAll(line)
			if perr != nil {
				fmt.Fprintln(out, "bad-line")
			} else if len(es) == 5 && es[0].Atom == "op" && (es[2].Atom == "gostring" || es[2].Atom == "gostringx") {
				fmt.Fprintf(out, "%s impl=%s\n", es[1].Atom, eval(types, fns, idx[es[1].Atom], es[3].Atom, es[4], texts[es[1].Atom]))
			}
		}
		if err != nil {
			return
		}
	}
}

func eval(types map[string]reflect.Type, fns []func() reflect.Value, k string, tn string, arg *rt.SExp, text string) (res string) {
	defer func() {
		if r := recover(); r != nil {
			res = "panic2"
			if os.Getenv("VERIF_DEBUG") != "" {
				res = fmt.Sprintf("panic2:%v", r)
			}
		}
	}()
	n, err := strconv.Atoi(k)
	if err != nil {
		if k == "" {
			return "no-text"
		}
		return k
	}
	t, ok := types[tn]
	if !ok {
		return "no-such-type"
	}
	got := fns[n]()
	orig := rt.NewCtx().Build(t, arg)
	eq := got.Type() == t && reflect.DeepEqual(orig.Interface(), got.Interface())
	o := strings.ReplaceAll(rt.NewObs().Observe(got), " ", ",") + ";skel=" + Skeleton(text, t)
	if eq {
		return o + ";eq=1"
	}
	return o + ";eq=0"
}
