// Package vsched is a deterministic cooperative scheduler for code that was source-rewritten from
// Go's channels / go / select / sync.WaitGroup onto it (tie T5 of C19/C20).
//
// Exactly one virtual goroutine runs at a time.  Every channel operation, go statement, WaitGroup
// call, close and marked shared-variable access is a *scheduling point*: the goroutine parks with
// its pending operation.  When no goroutine is running, the scheduler computes the list of enabled
// transitions over all parked operations (a transition involves one goroutine, or two for the
// rendezvous on an unbuffered channel), asks the Strategy to choose one, applies it to the channel
// state, logs it, and lets the goroutines involved run to their next scheduling point.  This is
// exactly the labelled-transition-system reading of Go's channel semantics used by the Lean layer K:
//
//   - buffered send: enabled iff the buffer has room; buffered receive: iff the buffer is non-empty
//   - unbuffered send: enabled iff some goroutine is parked at a receive (or a select with a receive
//     case) on the same channel; sender and receiver move together (event "xfer")
//   - receive on a closed, drained channel: enabled, yields (zero, false) (event "recvc")
//   - send on a closed channel / close of a closed or nil channel / negative WaitGroup: panic
//   - operations on a nil channel are never enabled; wg.Wait is enabled iff the counter is 0
//
// Deadlock = no enabled transition while some goroutine has not finished (that includes goroutines
// leaked behind a finished main).  A step limit turns divergence into a reported outcome.
package vsched

import (
	"fmt"
	"runtime"
	"strconv"
	"strings"
)

// Event is one logged step.
type Event struct {
	Kind  string // make go send recv recvc xfer close add done wait write read panic
	G     int    // acting goroutine (the sender for xfer)
	Site  string
	G2    int // child (go) / receiver (xfer)
	Site2 string
	Ch    string // channel, WaitGroup or variable name(s)
	Val   int
}

// String prints the event in the wire syntax understood by the Lean driver (all atoms).
func (e Event) String() string {
	s2, ch := e.Site2, e.Ch
	if s2 == "" {
		s2 = "-"
	}
	if ch == "" {
		ch = "-"
	}
	return "(" + e.Kind + " " + strconv.Itoa(e.G) + " " + e.Site + " " + strconv.Itoa(e.G2) + " " + s2 + " " + ch + " " + strconv.Itoa(e.Val) + ")"
}

// Strategy picks one of n >= 1 enabled transitions.
type Strategy interface{ Choose(n int) int }

// Choice records one scheduling decision.
type Choice struct{ N, Pick int }

// Tagged values print as their tag in the log (channels carried by channels, scenario errors).
type Tagged interface{ VTag() int }

type opKind int

const (
	opSpawn opKind = iota
	opSend
	opRecv
	opSelect
	opClose
	opAdd
	opWait
	opMark
)

type op struct {
	kind       opKind
	ch         *core
	val        any
	cases      []*core
	hasDefault bool // select with a default case: never blocks
	// results
	rval any
	ok   bool
	idx  int
	// spawn
	fn   func()
	site string
	// waitgroup
	wg    *WaitGroup
	delta int
	// mark
	mkind string
	names string
}

type g struct {
	id     int
	site   string
	wake   chan struct{}
	op     *op
	done   bool
	killed bool
}

type core struct {
	name   string
	cap    int
	buf    []any
	closed bool
	tag    int
}

// Result of one run.
type Result struct {
	Log     []Event
	Choices []Choice
	Outcome string // "ok", "panic", "deadlock", "steplimit"
	Detail  string
	Blocked []string // parked goroutines at a deadlock: "g3@site:recv(ch)"
	Steps   int
}

type sched struct {
	strat    Strategy
	gs       []*g
	ready    []*g
	yield    chan *g
	running  *g
	res      *Result
	abort    string
	detail   string
	maxSteps int
	por      bool
	sleep    []trans
}

var cur *sched

// Run executes main as virtual goroutine 0 (site "main") under the strategy until every goroutine has
// finished, or a panic, a deadlock or the step limit is hit.  Not reentrant: one run at a time.
func Run(strat Strategy, maxSteps int, main func()) *Result { return run(strat, maxSteps, false, main) }

// RunPOR is Run with sleep-set partial-order reduction, for depth-first exploration with the Replay
// strategy (choices explored in increasing order): a transition that was already explored from an
// earlier sibling and is independent of everything executed since is not explored again.  Two
// transitions are independent when they involve different goroutines and different objects (channel,
// WaitGroup, marked variable).  Every Mazurkiewicz trace (hence every reachable deadlock, panic and
// final outcome) keeps at least one representative; a run whose every enabled transition is asleep
// ends with Outcome "pruned".  Properties checked on POR runs must not depend on the relative order
// of independent steps (the checks in harness/conc use happens-before, not log positions).
func RunPOR(strat Strategy, maxSteps int, main func()) *Result {
	return run(strat, maxSteps, true, main)
}

func run(strat Strategy, maxSteps int, por bool, main func()) *Result {
	s := &sched{strat: strat, yield: make(chan *g), res: &Result{}, maxSteps: maxSteps, por: por}
	for _, c := range globals {
		c.buf, c.closed = nil, false
	}
	cur = s
	defer func() { cur = nil }()
	s.ready = append(s.ready, s.newG("main", main))
	for s.abort == "" {
		for len(s.ready) > 0 && s.abort == "" {
			x := s.ready[0]
			s.ready = s.ready[1:]
			s.resume(x)
		}
		if s.abort != "" {
			break
		}
		ts := s.enabled()
		if len(ts) == 0 {
			for _, x := range s.gs {
				if !x.done {
					s.res.Blocked = append(s.res.Blocked, fmt.Sprintf("g%d@%s:%s", x.id, x.site, x.op.describe()))
				}
			}
			if len(s.res.Blocked) > 0 {
				s.abort, s.detail = "deadlock", strings.Join(s.res.Blocked, " ")
			}
			break
		}
		if s.por {
			var cand []trans
			for _, t := range ts {
				asleep := false
				for _, u := range s.sleep {
					if u.same(t) {
						asleep = true
						break
					}
				}
				if !asleep {
					cand = append(cand, t)
				}
			}
			if len(cand) == 0 {
				s.abort, s.detail = "pruned", "every enabled transition is in the sleep set"
				break
			}
			ts = cand
		}
		pick := 0
		if len(ts) > 1 { // only real decisions are recorded (and consume a strategy choice)
			pick = s.strat.Choose(len(ts))
			if pick < 0 || pick >= len(ts) {
				pick = 0
			}
			s.res.Choices = append(s.res.Choices, Choice{len(ts), pick})
		}
		if s.por {
			var ns []trans
			for _, u := range append(s.sleep, ts[:pick]...) {
				if u.indep(ts[pick]) {
					ns = append(ns, u)
				}
			}
			s.sleep = ns
		}
		s.fire(ts[pick])
		s.res.Steps++
		if s.res.Steps > s.maxSteps && s.abort == "" {
			s.abort, s.detail = "steplimit", fmt.Sprintf("more than %d steps", s.maxSteps)
		}
	}
	// release every goroutine that is still parked
	for _, x := range s.gs {
		if !x.done {
			x.killed = true
			s.resume(x)
		}
	}
	s.res.Outcome, s.res.Detail = "ok", s.detail
	if s.abort != "" {
		s.res.Outcome = s.abort
	}
	return s.res
}

func (s *sched) newG(site string, fn func()) *g {
	x := &g{id: len(s.gs), site: site, wake: make(chan struct{})}
	s.gs = append(s.gs, x)
	go func() {
		<-x.wake
		defer func() {
			if r := recover(); r != nil && s.abort == "" {
				s.abort, s.detail = "panic", fmt.Sprintf("g%d@%s: %v", x.id, x.site, r)
				s.res.Log = append(s.res.Log, Event{Kind: "panic", G: x.id, Site: x.site, Ch: "runtime"})
			}
			x.done = true
			s.yield <- x
		}()
		if x.killed {
			return
		}
		fn()
	}()
	return x
}

// resume lets x run until it parks again or finishes.
func (s *sched) resume(x *g) {
	s.running = x
	x.wake <- struct{}{}
	<-s.yield
	s.running = nil
}

// park is called by the running goroutine at a scheduling point.
func park(o *op) *op {
	s := cur
	if s == nil {
		panic("vsched: operation outside Run")
	}
	x := s.running
	if x.killed { // deferred call of a goroutine that is being released at the end of the run
		return o
	}
	x.op = o
	s.yield <- x
	<-x.wake
	if x.killed {
		runtime.Goexit()
	}
	return o
}

func logNow(e Event) {
	s := cur
	if s == nil {
		panic("vsched: operation outside Run")
	}
	e.G, e.Site = s.running.id, s.running.site
	s.res.Log = append(s.res.Log, e)
}

type trans struct {
	kind string // go push pop recvc xfer close add wait mark panic-send
	x    *g
	r    *g  // receiver of an xfer
	idx  int // select case index of the goroutine that receives
}

func (t trans) same(u trans) bool {
	return t.x == u.x && t.r == u.r && t.idx == u.idx && t.kind == u.kind
}

// object touched by the transition (nil for go)
func (t trans) object() any {
	o := t.x.op
	switch t.kind {
	case "go":
		return nil
	case "add", "wait":
		return o.wg
	case "mark":
		return o.names
	case "pop", "recvc":
		if o.kind == opSelect {
			return o.cases[t.idx]
		}
		return o.ch
	}
	return o.ch
}

func (t trans) indep(u trans) bool {
	if t.kind == "default" || u.kind == "default" { // enabled only while no case is ready: depends on every case channel
		return false
	}
	if t.x == u.x || (t.r != nil && (t.r == u.x || t.r == u.r)) || (u.r != nil && u.r == t.x) {
		return false
	}
	a, b := t.object(), u.object()
	if a == nil || b == nil {
		return true
	}
	if sa, ok := a.(string); ok {
		sb, ok := b.(string)
		if !ok {
			return true
		}
		for _, x := range strings.Split(sa, ",") {
			for _, y := range strings.Split(sb, ",") {
				if x == y {
					return false
				}
			}
		}
		return true
	}
	return a != b
}

func (o *op) describe() string {
	switch o.kind {
	case opSend:
		return "send(" + o.ch.nameOrNil() + ")"
	case opRecv:
		return "recv(" + o.ch.nameOrNil() + ")"
	case opSelect:
		var n []string
		for _, c := range o.cases {
			n = append(n, c.nameOrNil())
		}
		return "select(" + strings.Join(n, ",") + ")"
	case opWait:
		return "wait(" + o.wg.Name + ")"
	}
	return "op"
}

func (c *core) nameOrNil() string {
	if c == nil {
		return "nil"
	}
	return c.name
}

func (s *sched) enabled() []trans {
	var ts []trans
	for _, x := range s.gs {
		if x.done || x.op == nil {
			continue
		}
		o := x.op
		switch o.kind {
		case opSpawn:
			ts = append(ts, trans{kind: "go", x: x})
		case opClose:
			ts = append(ts, trans{kind: "close", x: x})
		case opAdd:
			ts = append(ts, trans{kind: "add", x: x})
		case opMark:
			ts = append(ts, trans{kind: "mark", x: x})
		case opWait:
			if o.wg.n == 0 {
				ts = append(ts, trans{kind: "wait", x: x})
			}
		case opSend:
			c := o.ch
			if c == nil {
				continue
			}
			if c.closed {
				ts = append(ts, trans{kind: "panic-send", x: x})
			} else if len(c.buf) < c.cap {
				ts = append(ts, trans{kind: "push", x: x})
			} else if c.cap == 0 {
				for _, r := range s.gs {
					if r.done || r == x || r.op == nil {
						continue
					}
					if r.op.kind == opRecv && r.op.ch == c {
						ts = append(ts, trans{kind: "xfer", x: x, r: r})
					} else if r.op.kind == opSelect {
						for i, cc := range r.op.cases {
							if cc == c {
								ts = append(ts, trans{kind: "xfer", x: x, r: r, idx: i})
							}
						}
					}
				}
			}
		case opRecv:
			c := o.ch
			if c == nil {
				continue
			}
			if len(c.buf) > 0 {
				ts = append(ts, trans{kind: "pop", x: x})
			} else if c.closed {
				ts = append(ts, trans{kind: "recvc", x: x})
			}
		case opSelect:
			ready := false
			for i, c := range o.cases {
				if c == nil {
					continue
				}
				if len(c.buf) > 0 {
					ts = append(ts, trans{kind: "pop", x: x, idx: i})
					ready = true
				} else if c.closed {
					ts = append(ts, trans{kind: "recvc", x: x, idx: i})
					ready = true
				} else if c.cap == 0 {
					for _, sd := range s.gs { // a parked sender makes the case ready (the xfer is listed at the sender)
						if !sd.done && sd != x && sd.op != nil && sd.op.kind == opSend && sd.op.ch == c {
							ready = true
						}
					}
				}
			}
			if o.hasDefault && !ready { // Go takes the default case only when no other case can proceed
				ts = append(ts, trans{kind: "default", x: x})
			}
		}
	}
	return ts
}

// ValTag lets the scenarios give log values to things that cannot implement Tagged (e.g. context.Canceled).
var ValTag func(v any) (int, bool)

func valInt(v any) int {
	switch t := v.(type) {
	case nil:
		return 0
	case int:
		return t
	case Tagged:
		return t.VTag()
	}
	if ValTag != nil {
		if n, ok := ValTag(v); ok {
			return n
		}
	}
	return -1
}

func (s *sched) panicNow(x *g, what, ch string) {
	s.res.Log = append(s.res.Log, Event{Kind: "panic", G: x.id, Site: x.site, Ch: ch})
	s.abort, s.detail = "panic", fmt.Sprintf("g%d@%s: %s %s", x.id, x.site, what, ch)
}

func (s *sched) fire(t trans) {
	x := t.x
	o := x.op
	ev := Event{G: x.id, Site: x.site}
	recvChan := func() *core {
		if o.kind == opSelect {
			return o.cases[t.idx]
		}
		return o.ch
	}
	switch t.kind {
	case "go":
		child := s.newG(o.site, o.fn)
		ev.Kind, ev.G2, ev.Site2 = "go", child.id, child.site
		s.ready = append(s.ready, x, child)
	case "close":
		c := o.ch
		if c == nil {
			s.panicNow(x, "close of nil channel", "nil")
			return
		}
		if c.closed {
			s.panicNow(x, "close of closed channel", c.name)
			return
		}
		c.closed = true
		ev.Kind, ev.Ch = "close", c.name
		s.ready = append(s.ready, x)
	case "add":
		o.wg.n += o.delta
		if o.wg.n < 0 {
			s.panicNow(x, "negative WaitGroup counter", o.wg.Name)
			return
		}
		ev.Kind, ev.Ch, ev.Val = "add", o.wg.Name, o.delta
		if o.delta < 0 {
			ev.Kind, ev.Val = "done", -o.delta
		}
		s.ready = append(s.ready, x)
	case "wait":
		ev.Kind, ev.Ch = "wait", o.wg.Name
		s.ready = append(s.ready, x)
	case "mark":
		ev.Kind, ev.Ch = o.mkind, o.names
		s.ready = append(s.ready, x)
	case "default":
		o.idx = -1
		ev.Kind, ev.Ch = "default", "select"
		s.ready = append(s.ready, x)
	case "panic-send":
		s.panicNow(x, "send on closed channel", o.ch.name)
		return
	case "push":
		c := o.ch
		c.buf = append(c.buf, o.val)
		ev.Kind, ev.Ch, ev.Val = "send", c.name, valInt(o.val)
		s.ready = append(s.ready, x)
	case "pop":
		c := recvChan()
		o.rval, o.ok, o.idx = c.buf[0], true, t.idx
		c.buf = c.buf[1:]
		ev.Kind, ev.Ch, ev.Val = "recv", c.name, valInt(o.rval)
		s.ready = append(s.ready, x)
	case "recvc":
		c := recvChan()
		o.rval, o.ok, o.idx = nil, false, t.idx
		ev.Kind, ev.Ch = "recvc", c.name
		s.ready = append(s.ready, x)
	case "xfer":
		r := t.r
		r.op.rval, r.op.ok, r.op.idx = o.val, true, t.idx
		ev.Kind, ev.G2, ev.Site2, ev.Ch, ev.Val = "xfer", r.id, r.site, o.ch.name, valInt(o.val)
		s.ready = append(s.ready, x, r)
	}
	s.res.Log = append(s.res.Log, ev)
}

// ---------------------------------------------------------------- API used by rewritten code

// Go starts fn as a new virtual goroutine (scheduling point; the child is created when it fires).
func Go(site string, fn func()) { park(&op{kind: opSpawn, fn: fn, site: site}) }

// Spawn starts fn as a new virtual goroutine WITHOUT a scheduling point: the child exists at once and
// runs to its first scheduling point after the caller parks.  For environment goroutines only (a go
// statement merely enables transitions, so performing it eagerly loses no behaviour of the others);
// the go statements of rewritten code use Go.
func Spawn(site string, fn func()) {
	s := cur
	if s == nil {
		panic("vsched: operation outside Run")
	}
	child := s.newG(site, fn)
	s.res.Log = append(s.res.Log, Event{Kind: "go", G: s.running.id, Site: s.running.site, G2: child.id, Site2: child.site})
	s.ready = append(s.ready, child)
}

// Chan is the virtual channel.
type Chan[T any] struct{ c core }

// Make creates a channel; logged (not a scheduling point: it is local to the caller).
func Make[T any](name string, capacity int) *Chan[T] {
	ch := &Chan[T]{c: core{name: name, cap: capacity}}
	if cur == nil {
		// made by a package-level initialiser of the rewritten code (a channel shared by all calls): it exists before
		// any run and is emptied / reopened at the start of every run
		globals = append(globals, &ch.c)
		return ch
	}
	logNow(Event{Kind: "make", Ch: name, Val: capacity})
	return ch
}

var globals []*core

// SetTag sets the integer that represents this channel when it is sent over another channel.
func (ch *Chan[T]) SetTag(t int) *Chan[T] { ch.c.tag = t; return ch }

// NilTag is what a nil channel prints as when it is sent over another channel.
const NilTag = 999999

// VTag implements Tagged.
func (ch *Chan[T]) VTag() int {
	if ch == nil {
		return NilTag
	}
	return ch.c.tag
}

func (ch *Chan[T]) core() *core {
	if ch == nil {
		return nil
	}
	return &ch.c
}

// Name of the channel in the log.
func (ch *Chan[T]) Name() string { return ch.core().nameOrNil() }

func (ch *Chan[T]) Send(v T) { park(&op{kind: opSend, ch: ch.core(), val: v}) }

func (ch *Chan[T]) Recv() (T, bool) {
	o := park(&op{kind: opRecv, ch: ch.core()})
	if !o.ok {
		var z T
		return z, false
	}
	return cast[T](o.rval), true
}

func (ch *Chan[T]) Recv1() T { v, _ := ch.Recv(); return v }

func (ch *Chan[T]) Close() { park(&op{kind: opClose, ch: ch.core()}) }

func (ch *Chan[T]) Cap() int {
	if ch == nil {
		return 0
	}
	return ch.c.cap
}

func (ch *Chan[T]) Len() int {
	if ch == nil {
		return 0
	}
	return len(ch.c.buf)
}

func cast[T any](v any) T {
	if v == nil {
		var z T
		return z
	}
	return v.(T)
}

// RecvCase is one receive case of a Select; after Select returned its index, Val / Ok hold the result.
type RecvCase[T any] struct {
	ch  *core
	Val T
	Ok  bool
}

func (ch *Chan[T]) RecvCase() *RecvCase[T] { return &RecvCase[T]{ch: ch.core()} }

// SelCase is implemented by *RecvCase[T].
type SelCase interface {
	chanCore() *core
	set(v any, ok bool)
}

func (c *RecvCase[T]) chanCore() *core { return c.ch }
func (c *RecvCase[T]) set(v any, ok bool) {
	c.Ok = ok
	if ok {
		c.Val = cast[T](v)
	}
}

// Select blocks until one of the receive cases is chosen; returns its index.
func Select(cases ...SelCase) int { return sel(false, cases) }

// SelectDefault is a select with a default case: returns -1 when no receive case can proceed.
func SelectDefault(cases ...SelCase) int { return sel(true, cases) }

func sel(def bool, cases []SelCase) int {
	cs := make([]*core, len(cases))
	for i, c := range cases {
		cs[i] = c.chanCore()
	}
	o := park(&op{kind: opSelect, cases: cs, hasDefault: def})
	if o.idx >= 0 && o.idx < len(cases) {
		cases[o.idx].set(o.rval, o.ok)
	}
	return o.idx
}

// WaitGroup replaces sync.WaitGroup.
type WaitGroup struct {
	Name string
	n    int
}

func (w *WaitGroup) Add(d int) { park(&op{kind: opAdd, wg: w, delta: d}) }
func (w *WaitGroup) Done()     { park(&op{kind: opAdd, wg: w, delta: -1}) }
func (w *WaitGroup) Wait()     { park(&op{kind: opWait, wg: w}) }

// Write marks a write of variables shared between goroutines (scheduling point, logged).
func Write(names ...string) { park(&op{kind: opMark, mkind: "write", names: strings.Join(names, ",")}) }

// Read marks a read of variables shared between goroutines (scheduling point, logged).
func Read(names ...string) { park(&op{kind: opMark, mkind: "read", names: strings.Join(names, ",")}) }

// ---------------------------------------------------------------- strategies

// Replay follows Prefix, then always picks 0 (used by the DFS and by --replay).
type Replay struct {
	Prefix []int
	pos    int
}

func (r *Replay) Choose(n int) int {
	if r.pos < len(r.Prefix) {
		p := r.Prefix[r.pos]
		r.pos++
		return p
	}
	r.pos++
	return 0
}

// Random picks uniformly with a xorshift generator seeded by the caller (derived from VERIF_SEED).
type Random struct{ State uint64 }

func (r *Random) Choose(n int) int {
	if r.State == 0 {
		r.State = 0x9E3779B97F4A7C15
	}
	r.State ^= r.State << 13
	r.State ^= r.State >> 7
	r.State ^= r.State << 17
	return int((r.State >> 11) % uint64(n))
}

// Next computes the DFS successor of a finished run's choice list: the longest prefix that can be
// advanced.  ok=false when the whole tree has been explored.
func Next(choices []Choice) (prefix []int, ok bool) {
	i := len(choices) - 1
	for i >= 0 && choices[i].Pick+1 >= choices[i].N {
		i--
	}
	if i < 0 {
		return nil, false
	}
	prefix = make([]int, i+1)
	for j := 0; j < i; j++ {
		prefix[j] = choices[j].Pick
	}
	prefix[i] = choices[i].Pick + 1
	return prefix, true
}
