module verifruns

go 1.24

require github.com/awalterschulze/goderive v0.0.0

replace github.com/awalterschulze/goderive => /repo
