package funcs

import (
	"fmt"
	"math/rand"
	"regexp"
	"strings"
)

// Param is one parameter of a signature: Name "" = unnamed, "_" = blank.
type Param struct {
	Name string
	T    int
}

// Class is one generated package: a signature (or chain) class and the combinator applied to it.
type Class struct {
	Pkg  string
	Prop string // C15 | C16
	Kind string // op name: curry flip apply uncurry uncurrycurry tuple compose fmape joine bind traverse toerror
	Tag  string // naming scheme / shape, for the statistics and the finding classes

	Ps           []Param  // curry, flip, apply, uncurrycurry, toerror
	Outer, Inner []Param  // uncurry
	Rs           []int    // result types (toerror: without the trailing bool)
	Ts           []int    // tuple component types
	FromCall     bool     // tuple: deriveTuple(g()) instead of deriveTuple(a, b, …)
	Ins          []int    // compose: parameter types of stage 0
	Stages       [][]int  // compose: non-error result types per stage
	In           int      // fmape, bind, traverse: element type
	Outs         []int    // fmape, joine, bind, traverse: non-error result types
	LastExpr     string   // apply: Go source of the pre-bound argument when it is not a typed value built from the op line
	LastPayload  int      // apply: the payload that expression denotes
	ErrTy        string   // "" = the predeclared error; else a key of ErrTypes used in place of `error` …
	ErrAt        string   // … "result": last result of the (first) stage function; "arg": the error VALUE given to join / toerror
	Rn           []string // names of the results of the function under test (nil: unnamed); toerror: the bool included
	TupleClash   []int    // fmape: the package also calls deriveTuple on values of these types (assignable to, not identical with, f's results)
	IfaceParam   int      // compose: stage 0's first result has type 21 (*sqp), stage 1 receives it in a parameter of this INTERFACE type (17 / 11); 0 = none
	SliceObs     bool     // tuple, fmape (>= 2 results): the identity of the []int values is observed (nil / empty / same backing array)
	Import       string   // import path the package's own file needs (for the argument expression only)
	ErrExpr      string   // toerror: Go source of the supplied error value (error number 0) when it is not errOf(…)
	Twin         bool     // a SECOND call site of the same derive function: same types, parameter names in another order
	Variadic     string   // "" or the Go element type of a variadic last parameter (of stage VarStage for compose)
	VarStage     int      // compose: which stage is variadic
	siteTag      string   // set on the copy that generates the second call site
	noQuals      bool     // internal: SigWire without the (quals …) part
	Split        bool     // bind: `fn, e := deriveFmap(f, g)` observed before `deriveJoin(fn, e)` (else the nested call)
}

func wireName(n string) string {
	if n == "" {
		return "<>"
	}
	return n
}

func wireParams(head string, ps []Param) string {
	var sb strings.Builder
	sb.WriteString("(" + head)
	for _, p := range ps {
		fmt.Fprintf(&sb, " (%s Z%d)", wireName(p.Name), p.T)
	}
	sb.WriteString(")")
	return sb.String()
}

func wireTys(head string, ts []int) string {
	var sb strings.Builder
	sb.WriteString("(" + head)
	for _, t := range ts {
		fmt.Fprintf(&sb, " Z%d", t)
	}
	sb.WriteString(")")
	return sb.String()
}

func wireInts(head string, ns []int) string {
	var sb strings.Builder
	sb.WriteString("(" + head)
	for _, n := range ns {
		fmt.Fprintf(&sb, " %d", n)
	}
	sb.WriteString(")")
	return sb.String()
}

// SigWire is the description of the class in an op line (after the cfg part).
func (c *Class) SigWire() string {
	if !c.noQuals {
		// the package names that qualify types printed in the signature: only unsafe.Pointer (type 18) has one
		d := *c
		d.noQuals = true
		for _, ts := range [][]int{ptys(c.Ps), ptys(c.Outer), ptys(c.Inner), c.Rs} {
			for _, t := range ts {
				if t == 18 {
					return d.SigWire() + " (quals unsafe)"
				}
			}
		}
		return d.SigWire()
	}
	if len(c.Rn) > 0 {
		d := *c
		d.Rn = nil
		n := len(c.Rn)
		if c.Kind == "toerror" {
			n-- // the name of the trailing bool is not a result the wrapper returns
		}
		return d.SigWire() + " (rn " + strings.Join(c.Rn[:n], " ") + ")"
	}
	if c.Variadic != "" {
		return c.sigWire() + fmt.Sprintf(" (variadic %d)", c.VarStage)
	}
	if c.ErrTy != "" {
		return c.sigWire() + " (errty " + c.ErrTy + " " + c.ErrAt + ")"
	}
	return c.sigWire()
}

// errGo is the Go type written where `error` would be at position pos ("result" | "arg").
func (c *Class) errGo(pos string) string {
	if c.ErrTy != "" && c.ErrAt == pos {
		return ErrTypes[c.ErrTy].Go
	}
	return "error"
}

// errRet is the error expression a stage function returns: custom result types have no failing value.
func (c *Class) errRet(stage int, custom bool) string {
	if custom && c.ErrTy != "" && c.ErrAt == "result" {
		return ErrTypes[c.ErrTy].Zero
	}
	return fmt.Sprintf("failErr(%d)", stage)
}

// errArg is the statement list declaring `e`, the error value number in["<key>"][0] (or "no error").
func (c *Class) errArg(key string) string {
	if c.ErrExpr != "" {
		return "\te := " + c.ErrExpr + "\n"
	}
	if c.ErrTy != "" && c.ErrAt == "arg" {
		t := ErrTypes[c.ErrTy]
		s := fmt.Sprintf("\tvar e %s = %s\n", t.Go, t.Zero)
		if t.Val != "" {
			s += fmt.Sprintf("\tif len(in[%q]) == 1 {\n\t\te = "+t.Val+"\n\t}\n", key, fmt.Sprintf("in[%q][0]", key))
		}
		return s
	}
	return fmt.Sprintf("\tvar e error\n\tif len(in[%q]) == 1 {\n\t\te = errOf(9, in[%q][0])\n\t}\n", key, key)
}

func (c *Class) sigWire() string {
	switch c.Kind {
	case "curry", "flip", "apply", "uncurrycurry", "nest3", "nest4":
		return wireParams("ps", c.Ps) + " " + wireTys("rs", c.Rs)
	case "uncurry":
		return wireParams("outer", c.Outer) + " " + wireParams("inner", c.Inner) + " " + wireTys("rs", c.Rs)
	case "tuple":
		if c.SliceObs {
			return wireTys("ts", c.Ts) + " (sliceobs 1)"
		}
		return wireTys("ts", c.Ts)
	case "compose":
		var sb strings.Builder
		sb.WriteString(wireTys("ins", c.Ins) + " (stages")
		for _, s := range c.Stages {
			sb.WriteString(" " + strings.Replace(wireTys("", s), "( ", "(", 1))
		}
		sb.WriteString(")")
		if c.IfaceParam != 0 {
			sb.WriteString(" (ifacechain 1)")
		}
		return sb.String()
	case "fmape", "traverse":
		if len(c.TupleClash) > 0 {
			return wireTys("in", []int{c.In}) + " " + wireTys("outs", c.Outs) + " (tupleclash 1)"
		}
		if c.SliceObs {
			return wireTys("in", []int{c.In}) + " " + wireTys("outs", c.Outs) + " (sliceobs 1)"
		}
		return wireTys("in", []int{c.In}) + " " + wireTys("outs", c.Outs)
	case "bind":
		sp := 0
		if c.Split {
			sp = 1
		}
		return wireTys("in", []int{c.In}) + " " + wireTys("outs", c.Outs) + " " + wireInts("split", []int{sp})
	case "joine":
		return wireTys("outs", c.Outs)
	case "toerror":
		return wireParams("ps", c.Ps) + " " + wireTys("rs", c.Rs)
	}
	panic("kind " + c.Kind)
}

// GoSig is a readable rendering of the class (the derive call and the signature it is applied to).
func (c *Class) GoSig() string {
	if len(c.Rn) > 0 {
		d := *c
		d.Rn = nil
		return d.GoSig() + " with results named (" + strings.Join(c.Rn, ", ") + ")"
	}
	if c.Variadic != "" {
		return c.goSig() + fmt.Sprintf(" with a variadic last parameter ...%s (function %d)", c.Variadic, c.VarStage)
	}
	if c.Twin {
		return c.goSig() + " and a second call site with the parameter names reversed"
	}
	if c.ErrTy != "" {
		where := "as the last result of the first function"
		if c.ErrAt == "arg" {
			where = "as the error value"
		}
		return c.goSig() + " with " + ErrTypes[c.ErrTy].Go + " " + where
	}
	return c.goSig()
}

func (c *Class) goSig() string {
	sig := func(ps []Param, rs []int, extra string) string {
		return "func(" + goParams(ps) + ")" + goResults(rs, extra)
	}
	switch c.Kind {
	case "curry":
		return "deriveCurry(" + sig(c.Ps, c.Rs, "") + ")"
	case "flip":
		return "deriveFlip(" + sig(c.Ps, c.Rs, "") + ")"
	case "apply":
		if c.LastExpr != "" {
			return "deriveApply(" + sig(c.Ps, c.Rs, "") + ", " + c.LastExpr + ")"
		}
		return "deriveApply(" + sig(c.Ps, c.Rs, "") + ", last)"
	case "uncurrycurry":
		return "deriveUncurry(deriveCurry(" + sig(c.Ps, c.Rs, "") + "))"
	case "nest3":
		return "deriveFlip(deriveUncurry(deriveCurry(" + sig(c.Ps, c.Rs, "") + ")))"
	case "nest4":
		return "deriveApply(deriveFlip(deriveUncurry(deriveCurry(" + sig(c.Ps, c.Rs, "") + "))), last)"
	case "uncurry":
		return "deriveUncurry(func(" + goParams(c.Outer) + ") " + sig(c.Inner, c.Rs, "") + ")"
	case "tuple":
		return "deriveTuple(" + goParams(unnamed(c.Ts)) + ")"
	case "compose":
		in := c.Ins
		var fs []string
		for i, outs := range c.Stages {
			fs = append(fs, sig(unnamed(c.stageParams(i, in)), outs, "error"))
			in = outs
		}
		return "deriveCompose(" + strings.Join(fs, ", ") + ")"
	case "fmape":
		if len(c.TupleClash) > 0 {
			return "deriveFmap(" + sig(unnamed([]int{c.In}), c.Outs, "") + ", " + sig(nil, []int{c.In}, "error") + ") next to deriveTuple(" + goParams(unnamed(c.TupleClash)) + ")"
		}
		return "deriveFmap(" + sig(unnamed([]int{c.In}), c.Outs, "") + ", " + sig(nil, []int{c.In}, "error") + ")"
	case "joine":
		return "deriveJoin(" + sig(nil, c.Outs, "error") + ", error)"
	case "bind":
		if c.Split {
			return "fn, e := deriveFmap(" + sig(unnamed([]int{c.In}), c.Outs, "error") + ", " + sig(nil, []int{c.In}, "error") + "); deriveJoin(fn, e)"
		}
		return "deriveJoin(deriveFmap(" + sig(unnamed([]int{c.In}), c.Outs, "error") + ", " + sig(nil, []int{c.In}, "error") + "))"
	case "traverse":
		return "deriveTraverse(" + sig(unnamed([]int{c.In}), c.Outs, "error") + ", []" + Types[c.In].Go + ")"
	case "toerror":
		return "deriveToError(error, " + sig(c.Ps, c.Rs, "bool") + ")"
	}
	return c.Kind
}

// goParams prints a parameter list with the class's own names.
func goParams(ps []Param) string {
	ss := make([]string, len(ps))
	for i, p := range ps {
		if p.Name == "" {
			ss[i] = Types[p.T].Go
		} else {
			ss[i] = p.Name + " " + Types[p.T].Go
		}
	}
	return strings.Join(ss, ", ")
}

// implParams prints the parameter list of the instrumented implementation: x<from>, x<from+1>, …
func implParams(ts []int, from int) string {
	ss := make([]string, len(ts))
	for i, t := range ts {
		ss[i] = fmt.Sprintf("x%d %s", from+i, Types[t].Go)
	}
	return strings.Join(ss, ", ")
}

func goResults(ts []int, extra string) string {
	ss := make([]string, 0, len(ts)+1)
	for _, t := range ts {
		ss = append(ss, Types[t].Go)
	}
	if extra != "" {
		ss = append(ss, extra)
	}
	switch len(ss) {
	case 0:
		return ""
	case 1:
		return " " + ss[0]
	}
	return " (" + strings.Join(ss, ", ") + ")"
}

// namedResults prints a result list with names (all results are named, as Go requires).
func namedResults(names []string, ts []int, extra string) string {
	var ss []string
	for i, t := range ts {
		ss = append(ss, names[i]+" "+Types[t].Go)
	}
	if extra != "" {
		ss = append(ss, names[len(ts)]+" "+extra)
	}
	return " (" + strings.Join(ss, ", ") + ")"
}

// resOf prints the results of the function under test as its TYPE spells them.
func (c *Class) resOf(ts []int, extra string) string {
	if len(c.Rn) > 0 {
		return namedResults(c.Rn, ts, extra)
	}
	return goResults(ts, extra)
}

func ptys(ps []Param) []int {
	ts := make([]int, len(ps))
	for i, p := range ps {
		ts[i] = p.T
	}
	return ts
}

// obsList: `[]int{ob<t0>(x<from>), …}`
func obsList(ts []int, from int) string {
	ss := make([]string, len(ts))
	for i, t := range ts {
		ss[i] = fmt.Sprintf("ob%d(x%d)", t, from+i)
	}
	return "[]int{" + strings.Join(ss, ", ") + "}"
}

// mkResults: `mk<t0>(hh(tag, 0, a)), …`
func mkResults(ts []int, tag string) []string {
	ss := make([]string, len(ts))
	for j, t := range ts {
		ss[j] = fmt.Sprintf("mk%d(hh(%s, %d, a))", t, tag, j)
	}
	return ss
}

// mkArgs: `mk<t>(a[i])` for i in [from, from+len)
func mkArgs(ts []int, from int) []string {
	ss := make([]string, len(ts))
	for i, t := range ts {
		ss[i] = fmt.Sprintf("mk%d(a[%d])", t, from+i)
	}
	return ss
}

func rvars(n int) []string {
	ss := make([]string, n)
	for i := range ss {
		ss[i] = fmt.Sprintf("r%d", i)
	}
	return ss
}

func obsVars(ts []int) string {
	ss := make([]string, len(ts))
	for i, t := range ts {
		ss[i] = fmt.Sprintf("ob%d(r%d)", t, i)
	}
	return "[]int{" + strings.Join(ss, ", ") + "}"
}

// sliceMk / sliceObsVars / sliceFlagsExpr: the variants of mkResults / obsVars for classes that observe slice identity
func sliceMk(ts []int, exprs []string) []string {
	out := append([]string{}, exprs...)
	for j, t := range ts {
		if t == 9 {
			out[j] = strings.Replace(out[j], "mk9(", "mkS(", 1)
		}
	}
	return out
}

func sliceObsVars(ts []int) string {
	ss := make([]string, len(ts))
	for i, t := range ts {
		if t == 9 {
			ss[i] = fmt.Sprintf("obS(r%d)", i)
		} else {
			ss[i] = fmt.Sprintf("ob%d(r%d)", t, i)
		}
	}
	return "[]int{" + strings.Join(ss, ", ") + "}"
}

func sliceFlagsExpr(ts []int) string {
	var ss []string
	k := 0
	for i, t := range ts {
		if t == 9 {
			ss = append(ss, fmt.Sprintf("sliceFlag(r%d, %d)", i, k))
			k++
		}
	}
	return "\";a:\" + " + strings.Join(ss, " + ")
}

// assign prints `r0, r1 := <call>` or just `<call>` when there is nothing to bind.
func assign(vars []string, call string) string {
	if len(vars) == 0 {
		return call
	}
	return strings.Join(vars, ", ") + " := " + call
}

const fTag = "5"

// tag is the tag of the instrumented function(s) of this call site (results are computed from it).
func (c *Class) tag(dflt string) string {
	if c.siteTag != "" {
		return c.siteTag
	}
	return dflt
}

// stageParams: the parameter types of stage i given the result types `in` of the stage before it
func (c *Class) stageParams(i int, in []int) []int {
	if c.IfaceParam != 0 && i == 1 {
		pin := append([]int{}, in...)
		pin[0] = c.IfaceParam // assignable, not identical: *sqp is received as an interface
		return pin
	}
	return in
}

func (c *Class) stageTag(i int) string {
	if c.siteTag != "" {
		return fmt.Sprint(i + 10)
	}
	return fmt.Sprint(i)
}

// twinCopy is the class of the second call site: same types, the names of every parameter list reversed.
func (c *Class) twinCopy() *Class {
	d := *c
	rev := func(ps []Param) []Param {
		out := make([]Param, len(ps))
		for i, p := range ps {
			out[i] = Param{ps[len(ps)-1-i].Name, p.T}
		}
		return out
	}
	d.Ps, d.Inner = rev(c.Ps), rev(c.Inner)
	d.Twin, d.siteTag = false, "6"
	return &d
}

var (
	reF      = regexp.MustCompile(`\bF\b`)
	reFC     = regexp.MustCompile(`\bFC\b`)
	reStage  = regexp.MustCompile(`\bF(\d)\b`)
	reRunDef = regexp.MustCompile(`func Run\(`)
)

// Source returns the text of the package's own file (the support file is separate).
func (c *Class) Source() string {
	if c.Variadic != "" {
		return c.variadicSource()
	}
	if !c.Twin {
		return c.source()
	}
	one := reRunDef.ReplaceAllString(c.source(), "func Run1(")
	two := c.twinCopy().source()
	two = two[strings.Index(two, "\n\n")+2:] // without the package clause
	two = reRunDef.ReplaceAllString(two, "func Run2(")
	two = reF.ReplaceAllString(two, "F2")
	two = reFC.ReplaceAllString(two, "FC2")
	two = reStage.ReplaceAllString(two, "G$1")
	two = strings.NewReplacer("fImpl", "f2Impl", "fcImpl", "fc2Impl").Replace(two)
	return one + "\n// ---- second call site of the same derive function\n\n" + two +
		"\n// Run dispatches on the call site named by the op line.\nfunc Run(op string, in map[string][]int) string {\n\tif len(in[\"site\"]) == 1 && in[\"site\"][0] == 2 {\n\t\treturn Run2(op, in)\n\t}\n\treturn Run1(op, in)\n}\n"
}

// variadicSource: a variadic signature must be refused (or served correctly); the package only has to
// contain the call.
func (c *Class) variadicSource() string {
	var sb strings.Builder
	fmt.Fprintf(&sb, "package %s\n\n", c.Pkg)
	vp := func(ts []int) string {
		s := goParams(unnamed(ts))
		if s != "" {
			s += ", "
		}
		return s + "..." + c.Variadic
	}
	call := ""
	switch c.Kind {
	case "compose":
		in := c.Ins
		var names []string
		for i, outs := range c.Stages {
			ps := goParams(unnamed(in))
			if i == c.VarStage {
				ps = vp(in)
			}
			fmt.Fprintf(&sb, "var F%d func(%s)%s\n", i, ps, goResults(outs, "error"))
			names = append(names, fmt.Sprintf("F%d", i))
			in = outs
		}
		call = "deriveCompose(" + strings.Join(names, ", ") + ")"
	case "uncurry":
		fmt.Fprintf(&sb, "var FC func(%s) func(%s)%s\n", goParams(c.Outer), vp(ptys(c.Inner)), goResults(c.Rs, ""))
		call = "deriveUncurry(FC)"
	case "toerror":
		fmt.Fprintf(&sb, "var F func(%s)%s\n", vp(ptys(c.Ps)), goResults(c.Rs, "bool"))
		call = "deriveToError(errOf(9, 0), F)"
	default:
		fmt.Fprintf(&sb, "var F func(%s)%s\n", vp(ptys(c.Ps)), goResults(c.Rs, ""))
		switch c.Kind {
		case "curry":
			call = "deriveCurry(F)"
		case "flip":
			call = "deriveFlip(F)"
		case "apply":
			call = "deriveApply(F, []" + c.Variadic + "(nil))"
		}
	}
	fmt.Fprintf(&sb, "\n// Run is never reached on a tree that refuses variadic signatures.\nfunc Run(op string, in map[string][]int) string {\n\t_ = %s\n\treturn \"variadic\"\n}\n", call)
	return sb.String()
}

func (c *Class) source() string {
	var sb strings.Builder
	w := func(f string, a ...interface{}) { fmt.Fprintf(&sb, f, a...) }
	w("package %s\n\n", c.Pkg)
	if c.Import != "" {
		w("import %q\n\n", c.Import)
	}
	run := func(body string) {
		w("\n// Run executes one op line on the derived wrapper and returns the observable outcome.\n")
		w("func Run(op string, in map[string][]int) string {\n\ta := in[\"args\"]\n\t_ = a\n\tFail = in[\"fail\"]\n\tLog = nil\n%s}\n", body)
	}
	// runFn: for helpers that return a FUNCTION value. `build` creates it (and everything before the
	// final invocation), then the log is snapshot ("what has been evaluated by the time the helper
	// returned"), then the function is invoked twice, each time with a fresh log:
	//   p:<log before the first invocation>#<outcome of invocation 1>#<outcome of invocation 2>
	// seqBranch (toerror): with a `(seq b…)` part the SAME function value is invoked once per entry, f reporting
	// b in that call: s:<log before>#<outcome 1>#<outcome 2>… — state carried from call to call would show
	seqBranch := ""
	runFn := func(build string, vars []string, call, outcome string) {
		run(build + "\tpre := join(Log, \"|\")\n\tinv := func() string {\n\t\tLog = nil\n\t\t" + assign(vars, call) +
			"\n\t\treturn " + outcome + "\n\t}\n" + seqBranch + "\to1 := inv()\n\to2 := inv()\n\treturn \"p:\" + pre + \"#\" + o1 + \"#\" + o2\n")
	}
	switch c.Kind {
	case "curry", "flip", "apply", "uncurrycurry", "nest3", "nest4":
		ts := ptys(c.Ps)
		w("// F is the function under test; its TYPE carries the parameter names of the class.\n")
		w("var F func(%s)%s = fImpl\n\n", goParams(c.Ps), c.resOf(c.Rs, ""))
		w("func fImpl(%s)%s {\n\ta := %s\n\tlogArgs(a)\n", implParams(ts, 0), goResults(c.Rs, ""), obsList(ts, 0))
		if len(c.Rs) > 0 {
			w("\treturn %s\n", strings.Join(mkResults(c.Rs, c.tag(fTag)), ", "))
		}
		w("}\n")
		args := mkArgs(ts, 0)
		var build, call string
		switch c.Kind {
		case "curry":
			build = fmt.Sprintf("\tw := deriveCurry(F)(%s)\n", args[0])
			call = fmt.Sprintf("w(%s)", strings.Join(args[1:], ", "))
		case "flip":
			fl := append([]string{args[1], args[0]}, args[2:]...)
			build = "\tw := deriveFlip(F)\n"
			call = fmt.Sprintf("w(%s)", strings.Join(fl, ", "))
		case "apply":
			n := len(args)
			last := args[n-1]
			if c.LastExpr != "" {
				// an untyped constant, nil, a named constant or a concrete value for an interface parameter:
				// the type of the pre-bound parameter must come from F, not from this expression
				last = c.LastExpr
			}
			build = fmt.Sprintf("\tw := deriveApply(F, %s)\n", last)
			call = fmt.Sprintf("w(%s)", strings.Join(args[:n-1], ", "))
		case "uncurrycurry":
			build = "\tw := deriveUncurry(deriveCurry(F))\n"
			call = fmt.Sprintf("w(%s)", strings.Join(args, ", "))
		case "nest3":
			fl := append([]string{args[1], args[0]}, args[2:]...)
			build = "\tw := deriveFlip(deriveUncurry(deriveCurry(F)))\n"
			call = fmt.Sprintf("w(%s)", strings.Join(fl, ", "))
		case "nest4":
			n := len(args)
			fl := append([]string{args[1], args[0]}, args[2:n-1]...)
			build = fmt.Sprintf("\tw := deriveApply(deriveFlip(deriveUncurry(deriveCurry(F))), %s)\n", args[n-1])
			call = fmt.Sprintf("w(%s)", strings.Join(fl, ", "))
		}
		runFn(build, rvars(len(c.Rs)), call, "outcome("+obsVars(c.Rs)+")")
	case "uncurry":
		ot, it := ptys(c.Outer), ptys(c.Inner)
		w("// FC is the curried function under test.\n")
		w("var FC func(%s) func(%s)%s = fcImpl\n\n", goParams(c.Outer), goParams(c.Inner), c.resOf(c.Rs, ""))
		w("func fcImpl(%s) func(%s)%s {\n\tlogArgs(%s)\n", implParams(ot, 0), goParams(unnamed(it)), goResults(c.Rs, ""), obsList(ot, 0))
		w("\treturn func(%s)%s {\n\t\ta := %s\n\t\tlogArgs(a)\n", implParams(it, len(ot)), goResults(c.Rs, ""), obsList(append(append([]int{}, ot...), it...), 0))
		if len(c.Rs) > 0 {
			w("\t\treturn %s\n", strings.Join(mkResults(c.Rs, c.tag(fTag)), ", "))
		}
		w("\t}\n}\n")
		args := mkArgs(append(append([]int{}, ot...), it...), 0)
		runFn("\tw := deriveUncurry(FC)\n", rvars(len(c.Rs)), fmt.Sprintf("w(%s)", strings.Join(args, ", ")), "outcome("+obsVars(c.Rs)+")")
	case "tuple":
		args := mkArgs(c.Ts, 0)
		build := fmt.Sprintf("\tw := deriveTuple(%s)\n", strings.Join(args, ", "))
		if c.FromCall {
			w("func g(a []int)%s {\n\treturn %s\n}\n", goResults(c.Ts, ""), strings.Join(args, ", "))
			build = "\tw := deriveTuple(g(a))\n"
		}
		if c.SliceObs {
			build = fmt.Sprintf("\tMade, Empty = nil, len(in[\"empty\"]) == 1 && in[\"empty\"][0] != 0\n\tw := deriveTuple(%s)\n", strings.Join(sliceMk(c.Ts, args), ", "))
			runFn(build, rvars(len(c.Ts)), "w()", "outcome("+sliceObsVars(c.Ts)+") + "+sliceFlagsExpr(c.Ts))
			break
		}
		runFn(build, rvars(len(c.Ts)), "w()", "outcome("+obsVars(c.Ts)+")")
	case "compose":
		in := c.Ins
		names := make([]string, len(c.Stages))
		for i, outs := range c.Stages {
			names[i] = fmt.Sprintf("F%d", i)
			et := "error"
			if i == 0 {
				et = c.errGo("result")
			}
			pin := c.stageParams(i, in)
			res := mkResults(outs, c.stageTag(i))
			if c.IfaceParam != 0 && i == 0 {
				// the result that is handed to the interface parameter of the next stage can be told to be the nil pointer
				res[0] = fmt.Sprintf("mk%d(zr(hh(%s, 0, a)))", outs[0], c.stageTag(i))
			}
			w("func F%d(%s)%s {\n\ta := %s\n\tlogStage(%d, a)\n\treturn %s\n}\n\n", i, implParams(pin, 0), goResults(outs, et),
				obsList(pin, 0), i, strings.Join(append(res, c.errRet(i, i == 0)), ", "))
			in = outs
		}
		last := c.Stages[len(c.Stages)-1]
		runFn(fmt.Sprintf("\tZero = len(in[\"zero\"]) == 1 && in[\"zero\"][0] != 0\n\tw := deriveCompose(%s)\n", strings.Join(names, ", ")), append(rvars(len(last)), "err"),
			fmt.Sprintf("w(%s)", strings.Join(mkArgs(c.Ins, 0), ", ")), "outcomeE("+obsVars(last)+", err)")
	case "fmape":
		if len(c.TupleClash) > 0 {
			w("// a user's own tuple of types that are assignable to, but not identical with, F's results\nvar UserTuple = deriveTuple(%s)\n\n", strings.Join(mkArgs(c.TupleClash, 0), ", "))
			w("var a = []int{1, 2, 3}\n\n")
		}
		w("func G()%s {\n\ta := []int{}\n\tlogStage(0, a)\n\treturn mk%d(hh(0, 0, a)), %s\n}\n\n", goResults([]int{c.In}, c.errGo("result")), c.In, c.errRet(0, true))
		w("func F(x0 %s)%s {\n\ta := %s\n\tlogStage(1, a)\n", Types[c.In].Go, goResults(c.Outs, ""), obsList([]int{c.In}, 0))
		if len(c.Outs) > 0 {
			res := mkResults(c.Outs, "1")
			if c.SliceObs {
				res = sliceMk(c.Outs, res)
			}
			w("\treturn %s\n", strings.Join(res, ", "))
		}
		w("}\n")
		if c.SliceObs {
			runFn("\tMade, Empty = nil, len(in[\"empty\"]) == 1 && in[\"empty\"][0] != 0\n\tw, err := deriveFmap(F, G)\n\tif w == nil {\n\t\treturn \"p:\" + join(Log, \"|\") + \"#nil:\" + showErr(err)\n\t}\n",
				rvars(len(c.Outs)), "w()", "outcomeE("+sliceObsVars(c.Outs)+", err) + "+sliceFlagsExpr(c.Outs))
			break
		}
		switch len(c.Outs) {
		case 0:
			run("\terr := deriveFmap(F, G)\n\treturn outcomeE([]int{}, err)\n")
		case 1:
			run(fmt.Sprintf("\tr0, err := deriveFmap(F, G)\n\treturn outcomeE(%s, err)\n", obsVars(c.Outs)))
		default:
			// the returned function must only hand out what was computed: f has run (once) when deriveFmap returns
			runFn("\tw, err := deriveFmap(F, G)\n\tif w == nil {\n\t\treturn \"p:\" + join(Log, \"|\") + \"#nil:\" + showErr(err)\n\t}\n",
				rvars(len(c.Outs)), "w()", "outcomeE("+obsVars(c.Outs)+", err)")
		}
	case "joine":
		w("func F()%s {\n\ta := []int{}\n\tlogStage(1, a)\n\treturn %s\n}\n", goResults(c.Outs, c.errGo("result")),
			strings.Join(append(mkResults(c.Outs, "1"), c.errRet(1, true)), ", "))
		run(fmt.Sprintf("%s\t%s\n\treturn outcomeE(%s, err)\n", c.errArg("errin"),
			assign(append(rvars(len(c.Outs)), "err"), "deriveJoin(F, e)"), obsVars(c.Outs)))
	case "bind":
		w("func G()%s {\n\ta := []int{}\n\tlogStage(0, a)\n\treturn mk%d(hh(0, 0, a)), failErr(0)\n}\n\n", goResults([]int{c.In}, "error"), c.In)
		w("func F(x0 %s)%s {\n\ta := %s\n\tlogStage(1, a)\n\treturn %s\n}\n", Types[c.In].Go, goResults(c.Outs, "error"), obsList([]int{c.In}, 0),
			strings.Join(append(mkResults(c.Outs, "1"), "failErr(1)"), ", "))
		if c.Split {
			runFn("\tw, e1 := deriveFmap(F, G)\n", append(rvars(len(c.Outs)), "err"), "deriveJoin(w, e1)", "outcomeE("+obsVars(c.Outs)+", err)")
		} else {
			runFn("", append(rvars(len(c.Outs)), "err"), "deriveJoin(deriveFmap(F, G))", "outcomeE("+obsVars(c.Outs)+", err)")
		}
	case "traverse":
		out := c.Outs[0]
		w("var calls int\n\n")
		w("// F fails on its call number Fail[0] (counted from 0) with error number Fail[1].\n")
		if c.ErrTy != "" {
			w("func F(x0 %s) (%s, %s) {\n\ta := %s\n\ti := calls\n\tcalls++\n\tlogStage(i, a)\n\treturn mk%d(hh(0, 0, a)), %s\n}\n",
				Types[c.In].Go, Types[out].Go, c.errGo("result"), obsList([]int{c.In}, 0), out, c.errRet(0, true))
		} else {
			w("func F(x0 %s) (%s, error) {\n\ta := %s\n\ti := calls\n\tcalls++\n\tlogStage(i, a)\n\tvar err error\n\tif len(Fail) == 2 && Fail[0] == i {\n\t\terr = errOf(0, Fail[1])\n\t}\n\treturn mk%d(hh(0, 0, a)), err\n}\n",
				Types[c.In].Go, Types[out].Go, obsList([]int{c.In}, 0), out)
		}
		run(fmt.Sprintf("\tcalls = 0\n\tvar list []%s\n\tif l, ok := in[\"list\"]; ok {\n\t\tlist = make([]%s, 0, len(l))\n\t\tfor _, n := range l {\n\t\t\tlist = append(list, mk%d(n))\n\t\t}\n\t}\n"+
			"\tout, err := deriveTraverse(F, list)\n\tobs := make([]int, len(out))\n\tfor i, r0 := range out {\n\t\tobs[i] = ob%d(r0)\n\t}\n\treturn outcomeT(out == nil, obs, err)\n",
			Types[c.In].Go, Types[c.In].Go, c.In, out))
	case "toerror":
		ts := ptys(c.Ps)
		w("var F func(%s)%s = fImpl\n\n", goParams(c.Ps), c.resOf(c.Rs, "bool"))
		w("func fImpl(%s)%s {\n\ta := %s\n\tlogStage(0, a)\n\treturn %s\n}\n", implParams(ts, 0), goResults(c.Rs, "bool"), obsList(ts, 0),
			strings.Join(append(mkResults(c.Rs, c.tag("0")), "Ok"), ", "))
		seqBranch = "\tif seq, ok := in[\"seq\"]; ok {\n\t\tout := \"s:\" + pre\n\t\tfor _, b := range seq {\n\t\t\tOk = b != 0\n\t\t\tout += \"#\" + inv()\n\t\t}\n\t\treturn out\n\t}\n"
		runFn("\tOk = in[\"ok\"][0] != 0\n"+c.errArg("err")+"\tw := deriveToError(e, F)\n", append(rvars(len(c.Rs)), "err"),
			fmt.Sprintf("w(%s)", strings.Join(mkArgs(ts, 0), ", ")), "outcomeE("+obsVars(c.Rs)+", err)")
	default:
		panic("kind " + c.Kind)
	}
	return sb.String()
}

func unnamed(ts []int) []Param {
	ps := make([]Param, len(ts))
	for i, t := range ts {
		ps[i] = Param{"", t}
	}
	return ps
}

// payload draws an argument payload for type t (0 = the zero value; bool has only 0 and 1).
func payload(rng *rand.Rand, t int) int {
	if t == 22 {
		return 7 // the decoy Step
	}
	if Types[t].IsBool {
		return rng.Intn(2)
	}
	if rng.Intn(5) == 0 {
		return 0
	}
	return 1 + rng.Intn(9)
}

func payloads(rng *rand.Rand, ts []int) []int {
	out := make([]int, len(ts))
	for i, t := range ts {
		out[i] = payload(rng, t)
	}
	return out
}

// Ops returns the behaviour op lines of the class, each as the text after `op <id> `.
func (c *Class) Ops(rng *rand.Rand, cfg string, nargs int) []string {
	head := fmt.Sprintf("%s %s %s %s", c.Kind, c.Pkg, cfg, c.SigWire())
	var out []string
	add := func(parts ...string) { out = append(out, head+" "+strings.Join(parts, " ")) }
	if c.Variadic != "" {
		return nil
	}
	if c.Twin {
		d := *c
		d.Twin = false
		for _, l := range d.Ops(rng, cfg, nargs) {
			out = append(out, l+" (site 1)", l+" (site 2)")
		}
		return out
	}
	if c.ErrTy != "" {
		// behaviour only where a custom error VALUE is handed over (the other classes are about accept /
		// refuse / compile): it cannot be made to fail on demand, and a struct error has no "no error"
		t := ErrTypes[c.ErrTy]
		if c.ErrAt != "arg" || t.Val == "" {
			return nil
		}
		switch c.Kind {
		case "joine":
			if c.ErrTy == "errs" {
				add("(errin)", "(fail)") // the nil custom error: "no error"
			}
			add("(errin 0)", "(fail)")
			add("(errin 1)", "(fail 1 0)")
		case "toerror":
			for i := 0; i < 2; i++ {
				args := wireInts("args", payloads(rng, ptys(c.Ps)))
				add(args, "(ok 1)", wireInts("err", []int{i}))
				add(args, "(ok 0)", wireInts("err", []int{i}))
			}
			if c.ErrTy != "errv" {
				// the zero value of the supplied type: a typed nil (nil slice / nil pointer of a custom error
				// type) must come back exactly as it is; the nil interface as nil
				args := wireInts("args", payloads(rng, ptys(c.Ps)))
				add(args, "(ok 1)", "(err)")
				add(args, "(ok 0)", "(err)")
			}
		}
		return out
	}
	switch c.Kind {
	case "curry", "flip", "apply", "uncurrycurry", "nest3", "nest4":
		for i := 0; i < nargs; i++ {
			a := payloads(rng, ptys(c.Ps))
			if c.Kind == "apply" && c.LastExpr != "" {
				a[len(a)-1] = c.LastPayload // the bound value is written in the source
			}
			add(wireInts("args", a))
		}
	case "uncurry":
		for i := 0; i < nargs; i++ {
			add(wireInts("args", payloads(rng, append(ptys(c.Outer), ptys(c.Inner)...))))
		}
	case "tuple":
		for i := 0; i < nargs; i++ {
			add(wireInts("args", payloads(rng, c.Ts)))
		}
		if c.SliceObs {
			add(wireInts("args", payloads(rng, c.Ts)), "(empty 1)")
			z := payloads(rng, c.Ts)
			for j, t := range c.Ts {
				if t == 9 {
					z[j] = 0 // the nil slice
				}
			}
			add(wireInts("args", z))
		}
	case "compose":
		// every choice of the failing stage (or none) x both error values x argument vectors
		for i := 0; i < 2; i++ {
			args := wireInts("args", payloads(rng, c.Ins))
			if c.IfaceParam != 0 {
				// the pointer result of stage 0 once a real pointer, once the nil pointer (with a nil error)
				for z := 0; z < 2; z++ {
					zp := wireInts("zero", []int{z})
					add("(fail)", args, zp)
					add(wireInts("fail", []int{1, z}), args, zp)
					add(wireInts("fail", []int{len(c.Stages) - 1, 1 - z}), args, zp)
				}
				continue
			}
			add("(fail)", args)
			for s := range c.Stages {
				for k := 0; k < 2; k++ {
					add(wireInts("fail", []int{s, k}), args)
				}
			}
		}
	case "fmape":
		if c.SliceObs {
			add("(fail)", "(empty 1)")
		}
		add("(fail)")
		add("(fail 0 0)")
		add("(fail 0 1)")
	case "joine":
		for _, e := range []string{"(errin)", "(errin 0)", "(errin 1)"} {
			for _, f := range []string{"(fail)", "(fail 1 0)", "(fail 1 1)"} {
				add(e, f)
			}
		}
	case "bind":
		for _, f := range []string{"(fail)", "(fail 0 0)", "(fail 0 1)", "(fail 1 0)", "(fail 1 1)"} {
			add(f)
		}
	case "traverse":
		add("(fail)", "(nillist)")
		for n := 0; n <= 4; n++ {
			l := payloads(rng, repeat(c.In, n))
			add("(fail)", wireInts("list", l))
			for i := 0; i < n; i++ {
				add(wireInts("fail", []int{i, (i + n) % 2}), wireInts("list", l))
			}
		}
	case "toerror":
		for i := 0; i < nargs; i++ {
			args := wireInts("args", payloads(rng, ptys(c.Ps)))
			add(args, "(ok 1)", wireInts("err", []int{i % 2}))
			add(args, "(ok 0)", wireInts("err", []int{i % 2}))
		}
		// ONE derived function value, called two and three times with f succeeding / failing in every order
		args := wireInts("args", payloads(rng, ptys(c.Ps)))
		for n := 2; n <= 3; n++ {
			for m := 0; m < 1<<n; m++ {
				seq := make([]int, n)
				for j := range seq {
					seq[j] = m >> j & 1
				}
				add(args, "(ok 0)", wireInts("err", []int{m % 2}), wireInts("seq", seq))
			}
		}
	}
	return out
}

func repeat(t, n int) []int {
	out := make([]int, n)
	for i := range out {
		out[i] = t
	}
	return out
}

// BuildOp returns the build op of the class (text after `op <id> `).
func (c *Class) BuildOp(cfg string) string {
	return fmt.Sprintf("build %s %s (kind %s) %s", c.Pkg, cfg, c.Kind, c.SigWire())
}
