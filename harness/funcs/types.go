// Package funcs generates the corpus of the function-plumbing / error-chaining family (C15, C16):
// many small packages, one per (signature class, combinator), each with instrumented functions, one
// derive call and an entry point `Run(op, ints) string`.
//
// Values are abstract: a value of any corpus type is identified by a small integer payload, payload 0
// is the zero value of the type (the combinators are parametric in the values; only zero-ness and
// identity matter for the properties). `mk<k>` builds the value of type k for a payload, `ob<k>`
// observes the payload back (-1 for a value `mk<k>` cannot have produced).
package funcs

import (
	"fmt"
	"strings"
)

// T is one entry of the corpus type table.
type T struct {
	ID     int
	Go     string // Go spelling inside a generated package
	Wire   string // wire spelling for the Lean driver
	Kind   string // basic, named-basic, struct, array, pointer, slice, map, interface, named-slice
	ZeroOK bool   // derive.Zero prints a well-typed zero for it at the pinned commit
	IsBool bool
}

// Decls are the prelude `decl` lines (named types, in index order).
var Decls = []string{
	"decl - int",               // 0 NI
	"decl - string",            // 1 NS
	"decl m00 (st int string)", // 2 St
	"decl - (sl int)",          // 3 NSl
	"decl - bool",              // 4 NB
	"decl - iface",             // 5 Shape
	"decl - (p u8)",            // 6 UP (unsafe.Pointer is modelled as a pointer: nil is its zero)
}

var Types = []T{
	{0, "int", "int", "basic", true, false},
	{1, "string", "string", "basic", true, false},
	{2, "bool", "bool", "basic", true, true},
	{3, "float64", "f64", "basic", true, false},
	{4, "NI", "(n 0)", "named-basic", false, false},
	{5, "NS", "(n 1)", "named-basic", false, false},
	{6, "St", "(n 2)", "struct", false, false},
	{7, "[2]int", "(ar 2 int)", "array", false, false},
	{8, "*int", "(p int)", "pointer", true, false},
	{9, "[]int", "(sl int)", "slice", true, false},
	{10, "map[string]int", "(m string int)", "map", true, false},
	{11, "interface{}", "iface", "interface", true, false},
	{12, "struct{ A int }", "(st int)", "struct", false, false},
	{13, "NSl", "(n 3)", "named-slice", true, false},
	{14, "NB", "(n 4)", "named-basic", false, true},
	{15, "uint8", "u8", "basic", true, false},
	// a type whose Go spelling contains a per cent sign (struct tag): printed types must never end up in a format string
	{16, "struct{ A int \"cell:\\\"%5d\\\"\" }", "(st int)", "struct", false, false},
	{17, "Shape", "(n 5)", "interface", true, false},
	{18, "UnsafeP", "(p u8)", "unsafe-pointer", true, false},
	{19, "UP", "(n 6)", "unsafe-pointer", true, false},
	// the predeclared error as an ordinary (non-final) value type
	{20, "error", "iface", "interface", true, false},
	// a pointer type that implements Shape (also as a nil pointer): handed to interface parameters
	{21, "*sqp", "(p int)", "pointer", true, false},
	// a recursive named function type (LAST entry, not in the random pools: only payloads 0 = nil and 7 = decoy exist):
	// a parameter `f Step` of the function returned by a curried function of Step's own shape can stand in for it
	{22, "Step", "func", "func", true, false},
	// instances of generic named types declared in the package
	{23, "Box[int]", "(st int)", "struct", false, false},
	{24, "Pair[string, []int]", "(st string (sl int))", "struct", false, false},
}

// PoolTypes are the types the random pools and the per-type loops draw from (Step is placed by hand only).
func PoolTypes() []T {
	var out []T
	for _, t := range Types {
		if t.ID != 22 {
			out = append(out, t)
		}
	}
	return out
}

// ErrT is a type used where an `error` is expected.
type ErrT struct {
	Name       string // wire atom
	Go         string
	Zero       string // "no error" / zero value expression
	Val        string // printf format of a value for error number %s (an int expression); "" = none
	IsError    bool   // derive.IsError accepts it (at the pinned commit)
	Implements bool   // it really implements error
	ValueOK    bool   // a value of it can be passed where `error` is expected
}

var ErrTypes = map[string]ErrT{
	"errs":  {"errs", "ErrS", "ErrS(nil)", "ErrS{itoa(%s)}", true, true, true},
	"errv":  {"errv", "ErrV", "ErrV{}", "ErrV{Code: %s}", true, true, true},
	"errp":  {"errp", "ErrP", "ErrP{}", "", true, false, false},
	"perrp": {"perrp", "*ErrP", "(*ErrP)(nil)", "&ErrP{Code: %s}", false, true, true},
	"miss1": {"miss1", "Miss1", "Miss1{}", "", false, false, false},
	"miss2": {"miss2", "Miss2", "Miss2{}", "", false, false, false},
	"miss3": {"miss3", "Miss3", "Miss3{}", "", false, false, false},
	"miss4": {"miss4", "Miss4", "Miss4(nil)", "Miss4(errOf(9, %s))", false, true, true},
	"miss5": {"miss5", "Miss5", "Miss5{}", "", false, false, false},
}

// ErrNames lists the keys of ErrTypes in a fixed order.
var ErrNames = []string{"errs", "errv", "errp", "perrp", "miss1", "miss2", "miss3", "miss4", "miss5"}

// Geo is the text of the package corpus/geo: named types that the generated packages only mention in
// argument EXPRESSIONS, never in a signature.
const Geo = `// Package geo holds named types that derive calls are given values of.
package geo

type Square struct{ N int }

func (s Square) Area() int { return s.N }

type Dur int64

func (d Dur) Area() int { return int(d) }

type Err struct{ Code int }

func (e Err) Error() string { return "geo" }
func (e Err) ErrCode() int  { return e.Code }
`

// OKTypes are the ids for which the printed zero value is well typed today.
func OKTypes() []int {
	var out []int
	for _, t := range PoolTypes() {
		if t.ZeroOK {
			out = append(out, t.ID)
		}
	}
	return out
}

// Prelude returns the prelude lines for the Lean driver.
func Prelude() string {
	var sb strings.Builder
	for _, d := range Decls {
		sb.WriteString(d + "\n")
	}
	for _, t := range Types {
		fmt.Fprintf(&sb, "ty Z%d %s\n", t.ID, t.Wire)
	}
	return sb.String()
}

// Common is the text of the support file copied into every generated package.
func Common(pkg string) string {
	return "package " + pkg + commonBody
}

const commonBody = `

// No imports that cost anything: goderive type-checks the imports of a package from source on every run.

import "unsafe"

type NI int
type NS string
type St struct {
	A int
	B string
}
type NSl []int
type NB bool

// Shape is a local interface type; values of imported types are bound to parameters of this type.
type Shape interface{ Area() int }

type sq int

func (s sq) Area() int { return int(s) }

// sqp implements Shape through its POINTER: a nil *sqp inside a Shape is a non-nil interface whose Area is 99.
type sqp struct{ n int }

func (s *sqp) Area() int {
	if s == nil {
		return 99
	}
	return s.n
}

// Zero (set from the op line): zr turns the payload of a marked result into 0 — the stage returns the zero value
// (a nil pointer) beside a nil error.
var Zero bool

func zr(n int) int {
	if Zero {
		return 0
	}
	return n
}

// generic named types; the corpus uses the instances Box[int] and Pair[string, []int]
type Box[T any] struct{ V T }
type Pair[A, B any] struct {
	A A
	B B
}

// Step: see type 22. decoy is a Step that must never be called: it logs every entry.
type Step func(n int) func(n int, f Step) int

func decoy(n int) func(n int, f Step) int {
	Log = append(Log, "decoy")
	return func(m int, next Step) int {
		Log = append(Log, "decoy")
		return -1
	}
}

// Slice identity (classes marked sliceobs): Made holds the []int values in the order they were handed out, Empty makes
// them empty (not nil); sliceFlag tells what came back: n nil, e empty and not nil, s the same backing array, d another one.
var Made [][]int
var Empty bool

func mkS(n int) []int {
	var s []int
	if Empty {
		s = []int{}
	} else {
		s = mk9(n)
	}
	Made = append(Made, s)
	return s
}

func obS(v []int) int {
	if len(v) == 0 {
		return 0
	}
	return v[0]
}

func sliceFlag(r []int, k int) string {
	if r == nil {
		return "n"
	}
	if len(r) == 0 {
		return "e"
	}
	if k < len(Made) && len(Made[k]) > 0 && &r[0] == &Made[k][0] {
		return "s"
	}
	return "d"
}

// UnsafeP is unsafe.Pointer itself (an alias, so that the files of the package need not import unsafe).
type UnsafeP = unsafe.Pointer

// UP is a named type over unsafe.Pointer.
type UP unsafe.Pointer

// Custom error types and near-misses (derive.IsError looks for a NAMED type with a method Error() string).
type ErrS []string // nil-able, value receiver: implements error

func (e ErrS) Error() string { return "errs" }

type ErrV struct{ Code int } // struct, value receiver: implements error, has no nil

func (e ErrV) Error() string { return "errv" }

type ErrP struct{ Code int } // Error on the POINTER receiver: ErrP does not implement error, *ErrP does

func (e *ErrP) Error() string { return "errp" }

type Miss1 struct{}

func (Miss1) Error(x int) string { return "" }

type Miss2 struct{}

func (Miss2) Error() (string, int) { return "", 0 }

type Miss3 struct{}

func (Miss3) Error() int { return 0 }

type Miss4 interface{ error }

type Miss5 struct{}

func (Miss5) Error() NS { return "" }

// K and KT are an untyped and a typed named constant (bound by deriveApply in some classes).
const K = 3
const KT NI = 4

// Log is the call log of the instrumented functions of this package.
var Log []string

// Fail = [stage, k]: that stage fails with its error number k; empty: no stage fails.
var Fail []int

// Ok is what the instrumented function of toerror reports.
var Ok bool

func hh(tag, j int, a []int) int {
	s := tag*7 + j*13
	for i, x := range a {
		s += (i + 1) * (x + 1)
	}
	return s%89 + 1
}

func itoa(n int) string {
	if n < 0 {
		return "-" + itoa(-n)
	}
	if n < 10 {
		return string(rune('0' + n))
	}
	return itoa(n/10) + string(rune('0'+n%10))
}

// atoi parses a non-empty string of decimal digits; -1 otherwise.
func atoi(s string) int {
	if s == "" {
		return -1
	}
	n := 0
	for _, c := range s {
		if c < '0' || c > '9' {
			return -1
		}
		n = n*10 + int(c-'0')
	}
	return n
}

func join(ss []string, sep string) string {
	out := ""
	for i, s := range ss {
		if i > 0 {
			out += sep
		}
		out += s
	}
	return out
}

func joinInts(a []int, sep string) string {
	ss := make([]string, len(a))
	for i, x := range a {
		ss[i] = itoa(x)
	}
	return join(ss, sep)
}

type fxErr struct{ s, k int }

func (e *fxErr) Error() string { return "e" + itoa(e.s) + "." + itoa(e.k) }

func logArgs(a []int)           { Log = append(Log, joinInts(a, ".")) }
func logStage(i int, a []int)   { Log = append(Log, itoa(i)+":"+joinInts(a, ".")) }
func outcome(res []int) string  { return "r:" + joinInts(res, ",") + ";l:" + join(Log, "|") }
func outcomeE(res []int, err error) string {
	return "r:" + joinInts(res, ",") + ";e:" + showErr(err) + ";l:" + join(Log, "|")
}
func outcomeT(isNil bool, out []int, err error) string {
	o := "[" + joinInts(out, ",") + "]"
	if isNil {
		o = "nil"
	}
	return "o:" + o + ";e:" + showErr(err) + ";l:" + join(Log, "|")
}

var errTab = map[[2]int]error{}

// errOf returns THE error object number k of stage s (one object per (s, k), compared by identity).
func errOf(s, k int) error {
	key := [2]int{s, k}
	if e, ok := errTab[key]; ok {
		return e
	}
	var e error = &fxErr{s, k}
	errTab[key] = e
	return e
}

func showErr(e error) string {
	if e == nil {
		return "nil"
	}
	switch x := e.(type) {
	case ErrV:
		return "9." + itoa(x.Code)
	case ErrS:
		if x == nil {
			return "typednil" // a nil custom error inside a non-nil interface
		}
		return "9." + x[0]
	case *ErrP:
		if x == nil {
			return "typednil"
		}
		return "9." + itoa(x.Code)
	case interface{ ErrCode() int }:
		return "9." + itoa(x.ErrCode()) // an error value of an imported type
	}
	for k, v := range errTab {
		if v == e {
			return itoa(k[0]) + "." + itoa(k[1])
		}
	}
	return "other"
}

func failErr(stage int) error {
	if len(Fail) == 2 && Fail[0] == stage {
		return errOf(stage, Fail[1])
	}
	return nil
}

func mk0(n int) int { return n }
func ob0(v int) int { return v }
func mk1(n int) string {
	if n == 0 {
		return ""
	}
	return itoa(n)
}
func ob1(v string) int {
	if v == "" {
		return 0
	}
	n := atoi(v)
	if n <= 0 {
		return -1
	}
	return n
}
func mk2(n int) bool { return n != 0 }
func ob2(v bool) int {
	if v {
		return 1
	}
	return 0
}
func mk3(n int) float64 { return float64(n) }
func ob3(v float64) int { return int(v) }
func mk4(n int) NI      { return NI(n) }
func ob4(v NI) int      { return int(v) }
func mk5(n int) NS      { return NS(mk1(n)) }
func ob5(v NS) int      { return ob1(string(v)) }
func mk6(n int) St      { return St{A: n} }
func ob6(v St) int {
	if v.B != "" {
		return -1
	}
	return v.A
}
func mk7(n int) [2]int { return [2]int{n, 0} }
func ob7(v [2]int) int {
	if v[1] != 0 {
		return -1
	}
	return v[0]
}
func mk8(n int) *int {
	if n == 0 {
		return nil
	}
	x := n
	return &x
}
func ob8(v *int) int {
	if v == nil {
		return 0
	}
	if *v == 0 {
		return -1
	}
	return *v
}
func mk9(n int) []int {
	if n == 0 {
		return nil
	}
	return []int{n}
}
func ob9(v []int) int {
	if v == nil {
		return 0
	}
	if len(v) != 1 || v[0] == 0 {
		return -1
	}
	return v[0]
}
func mk10(n int) map[string]int {
	if n == 0 {
		return nil
	}
	return map[string]int{"k": n}
}
func ob10(v map[string]int) int {
	if v == nil {
		return 0
	}
	if len(v) != 1 || v["k"] == 0 {
		return -1
	}
	return v["k"]
}
func mk11(n int) interface{} {
	if n == 0 {
		return nil
	}
	return n
}
func ob11(v interface{}) int {
	if v == nil {
		return 0
	}
	if s, ok := v.(interface{ Area() int }); ok && s.Area() != 0 {
		return s.Area() // a value of some (possibly imported) named type
	}
	n, ok := v.(int)
	if !ok || n == 0 {
		return -1
	}
	return n
}
func mk12(n int) struct{ A int } { return struct{ A int }{n} }
func ob12(v struct{ A int }) int { return v.A }
func mk13(n int) NSl             { return NSl(mk9(n)) }
func ob13(v NSl) int             { return ob9([]int(v)) }
func mk14(n int) NB              { return NB(n != 0) }
func ob14(v NB) int              { return ob2(bool(v)) }
func mk15(n int) uint8           { return uint8(n) }
func ob15(v uint8) int           { return int(v) }
func mk17(n int) Shape {
	if n == 0 {
		return nil
	}
	return sq(n)
}
func ob17(v Shape) int {
	if v == nil {
		return 0
	}
	if v.Area() == 0 {
		return -1
	}
	return v.Area()
}
func mk18(n int) unsafe.Pointer {
	if n == 0 {
		return nil
	}
	x := n
	return unsafe.Pointer(&x)
}
func ob18(v unsafe.Pointer) int {
	if v == nil {
		return 0
	}
	if *(*int)(v) == 0 {
		return -1
	}
	return *(*int)(v)
}
func mk19(n int) UP { return UP(mk18(n)) }
func ob19(v UP) int { return ob18(unsafe.Pointer(v)) }
// valErr is the error VALUE type behind payloads of type 20.
type valErr int

func (e valErr) Error() string { return "val" + itoa(int(e)) }

func mk20(n int) error {
	if n == 0 {
		return nil
	}
	return valErr(n)
}
func ob20(v error) int {
	if v == nil {
		return 0
	}
	e, ok := v.(valErr)
	if !ok || e == 0 {
		return -1
	}
	return int(e)
}
func mk21(n int) *sqp {
	if n == 0 {
		return nil
	}
	return &sqp{n}
}
func ob21(v *sqp) int {
	if v == nil {
		return 0
	}
	if v.n == 0 {
		return -1
	}
	return v.n
}
func mk23(n int) Box[int] { return Box[int]{n} }
func ob23(v Box[int]) int { return v.V }
func mk24(n int) Pair[string, []int] {
	return Pair[string, []int]{A: mk1(n), B: mk9(n)}
}
func ob24(v Pair[string, []int]) int {
	if ob1(v.A) != ob9(v.B) {
		return -1
	}
	return ob1(v.A)
}
func mk22(n int) Step {
	if n == 0 {
		return nil
	}
	return decoy
}
func ob22(v Step) int {
	if v == nil {
		return 0
	}
	return 7
}
func mk16(n int) struct {
	A int "cell:\"%5d\""
} {
	return struct {
		A int "cell:\"%5d\""
	}{n}
}
func ob16(v struct {
	A int "cell:\"%5d\""
}) int {
	return v.A
}
`
