module verifharness

go 1.24
