// Package names generates the tiny packages of the C11/C12 pipeline tie (T2), runs the real goderive
// binary on them, reads the results back (go/parser, go/types) and generates the op lines of the
// in-process tie (T3). Everything random comes from the one *rand.Rand handed in.
package names

import (
	"fmt"
	"go/format"
	"regexp"
	"sort"
	"strings"
)

// TypeSpec is one argument type of a case: Go source form, wire form (Driver/OpsGen.lean) and the
// declaration it needs (may be empty).
type TypeSpec struct {
	Go   string `json:"go"`
	Wire string `json:"wire"`
	Decl string `json:"decl,omitempty"`
	// Import: `alias "path"` of the package the type comes from (module-local packages written from Case.Extra)
	Import string `json:"import,omitempty"`
}

// PluginSpec: a plugin with its EFFECTIVE prefix (after -prefix / -pluginprefix) and the argument
// check its Add performs before SetFuncName (kind: equal | hash | one | two | any).
type PluginSpec struct {
	Name   string `json:"name"`
	Prefix string `json:"prefix"`
	Kind   string `json:"kind"`
}

type CallSpec struct {
	Plugin string `json:"plugin"` // plugin the generator intends (decides the wrapper's shape)
	Name   string `json:"name"`   // identifier at the call site
	Type   int    `json:"type"`   // index into Case.Types
	Arity  int    `json:"arity"`  // number of arguments (all of type Type): 1 = curried form of equal/compare, tuple of one
	// Inner: name of a deriveKeys-style call wrapped around the argument (NAME(INNER(m), …)): the argument
	// type of NAME is unknown until INNER has been generated, so the call needs a second generation pass.
	Inner string `json:"inner,omitempty"`
	// Const: the (single) argument is this untyped constant expression instead of a typed parameter; Type is its default type
	Const string `json:"const,omitempty"`
	// Builtin: the call site is an ARGUMENT of a builtin call: append(rs, NAME(…)) or panic(NAME(…))
	Builtin string `json:"builtin,omitempty"`
}

// Call builds a call with the usual arity of the plugin.
func Call(plugin, name string, typ int) CallSpec {
	return CallSpec{Plugin: plugin, Name: name, Type: typ, Arity: arity(plugin)}
}

type FileSpec struct {
	Name  string     `json:"name"`
	Calls []CallSpec `json:"calls"`
}

type Variant struct {
	Autoname bool `json:"autoname"`
	Dedup    bool `json:"dedup"`
}

func (v Variant) String() string {
	s := ""
	if v.Autoname {
		s += "a"
	}
	if v.Dedup {
		s += "d"
	}
	if s == "" {
		s = "-"
	}
	return s
}

func (v Variant) Args() []string {
	var a []string
	if v.Autoname {
		a = append(a, "-autoname")
	}
	if v.Dedup {
		a = append(a, "-dedup")
	}
	return a
}

var AllVariants = []Variant{{false, false}, {true, false}, {false, true}, {true, true}}

type Case struct {
	ID           string       `json:"id"`
	Stream       string       `json:"stream"`
	Types        []TypeSpec   `json:"types"`
	Plugins      []PluginSpec `json:"plugins"`       // all plugins of main.go, registration order, effective prefixes
	GoderiveArgs []string     `json:"goderive_args"` // -prefix / -pluginprefix
	Files        []FileSpec   `json:"files"`
	Reserved     []string     `json:"reserved"` // identifiers declared in OtherFile and called there
	ReservedForm []string     `json:"reserved_form,omitempty"` // per reserved name: func | var (func-typed variable) | type (conversion); default func
	OtherFile    string       `json:"other_file"`
	Variants     []Variant    `json:"variants"`
	KeepDerived  bool         `json:"keep_derived,omitempty"`
	Pkg2         []FileSpec        `json:"pkg2,omitempty"` // files of a second package q processed by the same invocation (goderive ./p ./q)
	ExtraCalls   []CallSpec        `json:"extra_calls,omitempty"` // derive calls written in raw Extra files of package p (for the clash oracle only)
	ExtraPkgs    []string          `json:"extra_pkgs,omitempty"` // further package directories (written from Extra) given to the same invocation after ./p
	PreRunP      bool              `json:"pre_run_p,omitempty"`  // goderive is first run on ./p alone (a library generated earlier), then on all packages
	GoBuild      bool              `json:"go_build,omitempty"`   // after a successful run the whole module must build (go build ./...)
	GenHeader    bool              `json:"gen_header,omitempty"` // the user files start with a "Code generated … DO NOT EDIT." line (they are still the user's: calls are renamed in them)
	ExtraFixed   bool              `json:"extra_fixed,omitempty"` // the raw Extra files of package p hold no derive call: a run must leave them as they are
	NoModel      bool              `json:"no_model,omitempty"` // multi-pass / multi-package cases: no regall line of the Lean model
	Extra        map[string]string `json:"extra,omitempty"` // further files of the module (path relative to the module root): imported packages
	Group        string       `json:"group,omitempty"` // C12: cases of one group are renamings of each other
	Rename       string       `json:"rename,omitempty"`
}

// DefaultPlugins: main.go's registration order with the default prefixes. `facts` (T4) compares
// this table and the Lean table with the source on every run.
var DefaultPlugins = [][2]string{
	{"equal", "deriveEqual"}, {"compare", "deriveCompare"}, {"fmap", "deriveFmap"}, {"join", "deriveJoin"},
	{"keys", "deriveKeys"}, {"sort", "deriveSort"}, {"deepcopy", "deriveDeepCopy"}, {"set", "deriveSet"},
	{"min", "deriveMin"}, {"max", "deriveMax"}, {"contains", "deriveContains"}, {"intersect", "deriveIntersect"},
	{"union", "deriveUnion"}, {"filter", "deriveFilter"}, {"takewhile", "deriveTakeWhile"}, {"unique", "deriveUnique"},
	{"flip", "deriveFlip"}, {"toerror", "deriveToError"}, {"curry", "deriveCurry"}, {"uncurry", "deriveUncurry"},
	{"all", "deriveAll"}, {"any", "deriveAny"}, {"tuple", "deriveTuple"}, {"gostring", "deriveGoString"},
	{"compose", "deriveCompose"}, {"do", "deriveDo"}, {"pipeline", "derivePipeline"}, {"dup", "deriveDup"},
	{"clone", "deriveClone"}, {"hash", "deriveHash"}, {"mem", "deriveMem"}, {"traverse", "deriveTraverse"},
	{"apply", "deriveApply"},
}

// ImportNames: the names under which the plugin constructors import packages (p.NewImport(name, path)); since
// c630945 they are in the shared reserved set of every package. Compared with the source by `facts` (T4).
var ImportNames = []string{"bytes", "fmt", "math", "reflect", "sort", "strconv", "strings", "sync", "unsafe"}

// kindOf: the argument check of the plugin's Add, as far as the generated packages exercise it.
func kindOf(plugin string) string {
	switch plugin {
	case "equal", "compare":
		return "equal" // one or two arguments, two must be identical
	case "hash", "clone", "keys", "sort", "unique", "set", "gostring":
		return "one"
	case "tuple":
		return "some" // at least one argument
	case "deepcopy":
		return "two"
	}
	return "any"
}

// Plugins computes the effective plugin table for -prefix=p and -pluginprefix overrides, exactly as
// main.go does (strings.Replace(prefix, "derive", p, 1), then the override map).
func Plugins(p string, overrides map[string]string) []PluginSpec {
	out := make([]PluginSpec, len(DefaultPlugins))
	for i, d := range DefaultPlugins {
		pre := strings.Replace(d[1], "derive", p, 1)
		if o, ok := overrides[d[0]]; ok {
			pre = o
		}
		out[i] = PluginSpec{Name: d[0], Prefix: pre, Kind: kindOf(d[0])}
	}
	return out
}

func PrefixArgs(p string, overrides map[string]string) []string {
	var a []string
	if p != "derive" {
		a = append(a, "-prefix="+p)
	}
	if len(overrides) > 0 {
		ks := make([]string, 0, len(overrides))
		for k := range overrides {
			ks = append(ks, k)
		}
		sort.Strings(ks)
		ps := make([]string, len(ks))
		for i, k := range ks {
			ps[i] = k + "=" + overrides[k]
		}
		a = append(a, "-pluginprefix="+strings.Join(ps, ","))
	}
	return a
}

// ---------------------------------------------------------------- source emission

var wrapperRe = regexp.MustCompile(`^func (Wrap\d+)\(([^)]*)\) (.*) \{ return (.*) \}\n$`)

// wrapper: the user function holding one derive call; with Builtin set the call is an argument of a builtin.
func wrapper(i int, c CallSpec, t TypeSpec) string {
	w := plainWrapper(i, c, t)
	if c.Builtin == "" {
		return w
	}
	m := wrapperRe.FindStringSubmatch(w)
	if m == nil {
		return w // no result to hand to a builtin
	}
	switch c.Builtin {
	case "append":
		return fmt.Sprintf("func %s(%s) []%s {\n\tvar rs []%s\n\treturn append(rs, %s)\n}\n", m[1], m[2], m[3], m[3], m[4])
	case "panic":
		return fmt.Sprintf("func %s(%s) {\n\tpanic(%s)\n}\n", m[1], m[2], m[4])
	}
	return w
}

func plainWrapper(i int, c CallSpec, t TypeSpec) string {
	f := fmt.Sprintf("Wrap%d", i)
	if c.Inner != "" {
		// t is map[K]V; INNER(a) is []K
		k := t.Go[len("map["):strings.Index(t.Go, "]")]
		zero := "0"
		if k == "string" {
			zero = "\"\""
		}
		arg := c.Inner + "(a)"
		switch c.Plugin {
		case "min", "max":
			return fmt.Sprintf("func %s(a %s) %s { return %s(%s, %s) }\n", f, t.Go, k, c.Name, arg, zero)
		case "sort", "unique":
			return fmt.Sprintf("func %s(a %s) []%s { return %s(%s) }\n", f, t.Go, k, c.Name, arg)
		case "set":
			return fmt.Sprintf("func %s(a %s) map[%s]struct{} { return %s(%s) }\n", f, t.Go, k, c.Name, arg)
		case "hash":
			return fmt.Sprintf("func %s(a %s) uint64 { return %s(%s) }\n", f, t.Go, c.Name, arg)
		}
		panic("wrapper: no nested form for plugin " + c.Plugin)
	}
	switch c.Plugin {
	case "min", "max":
		// t is []int
		return fmt.Sprintf("func %s(a %s) int { return %s(a, 0) }\n", f, t.Go, c.Name)
	case "equal":
		if c.Arity == 1 {
			return fmt.Sprintf("func %s(a %s) func(%s) bool { return %s(a) }\n", f, t.Go, t.Go, c.Name)
		}
		return fmt.Sprintf("func %s(a, b %s) bool { return %s(a, b) }\n", f, t.Go, c.Name)
	case "compare":
		if c.Arity == 1 {
			return fmt.Sprintf("func %s(a %s) func(%s) int { return %s(a) }\n", f, t.Go, t.Go, c.Name)
		}
		return fmt.Sprintf("func %s(a, b %s) int { return %s(a, b) }\n", f, t.Go, c.Name)
	case "tuple":
		if c.Const != "" {
			return fmt.Sprintf("func %s() func() %s { return %s(%s) }\n", f, t.Go, c.Name, c.Const)
		}
		if c.Arity == 1 {
			return fmt.Sprintf("func %s(a %s) func() %s { return %s(a) }\n", f, t.Go, t.Go, c.Name)
		}
		return fmt.Sprintf("func %s(a, b %s) func() (%s, %s) { return %s(a, b) }\n", f, t.Go, t.Go, t.Go, c.Name)
	case "set":
		// t is a slice type []E with comparable E
		return fmt.Sprintf("func %s(a %s) map[%s]struct{} { return %s(a) }\n", f, t.Go, t.Go[2:], c.Name)
	case "hash":
		return fmt.Sprintf("func %s(a %s) uint64 { return %s(a) }\n", f, t.Go, c.Name)
	case "deepcopy":
		return fmt.Sprintf("func %s(a, b %s) { %s(a, b) }\n", f, t.Go, c.Name)
	case "clone":
		return fmt.Sprintf("func %s(a %s) %s { return %s(a) }\n", f, t.Go, t.Go, c.Name)
	case "keys":
		// t must be a map type map[K]V written as "map[K]V"; result []K
		k := t.Go[len("map["):strings.Index(t.Go, "]")]
		return fmt.Sprintf("func %s(a %s) []%s { return %s(a) }\n", f, t.Go, k, c.Name)
	case "sort", "unique":
		return fmt.Sprintf("func %s(a %s) %s { return %s(a) }\n", f, t.Go, t.Go, c.Name)
	}
	panic("wrapper: unsupported plugin " + c.Plugin)
}

func gofmt(src string) string {
	b, err := format.Source([]byte(src))
	if err != nil {
		panic(fmt.Sprintf("generated source does not parse: %v\n%s", err, src))
	}
	return string(b)
}

// Sources returns file name -> contents of the user package (package name p).
func (c *Case) Sources() map[string]string {
	out := c.render("p", c.Files)
	c.reservedFile(out)
	return out
}

// Sources2 returns the files of the second package q (empty when the case has one package).
func (c *Case) Sources2() map[string]string { return c.render("q", c.Pkg2) }

func (c *Case) render(pkg string, files []FileSpec) map[string]string {
	out := map[string]string{}
	n := 0
	for fi, f := range files {
		var sb strings.Builder
		if c.GenHeader {
			sb.WriteString("// Code generated by sometool. DO NOT EDIT.\n\n")
		}
		sb.WriteString("package " + pkg + "\n\n")
		imps := map[string]bool{}
		for _, call := range f.Calls {
			if im := c.Types[call.Type].Import; im != "" && !imps[im] {
				imps[im] = true
				sb.WriteString("import " + im + "\n")
			}
		}
		sb.WriteString("\n")
		if fi == 0 {
			seen := map[string]bool{}
			for _, t := range c.Types {
				if t.Decl != "" && !seen[t.Decl] {
					seen[t.Decl] = true
					sb.WriteString(t.Decl + "\n\n")
				}
			}
		}
		for _, call := range f.Calls {
			sb.WriteString(wrapper(n, call, c.Types[call.Type]))
			sb.WriteString("\n")
			n++
		}
		out[f.Name] = gofmt(sb.String())
	}
	return out
}

func (c *Case) reservedFile(out map[string]string) {
	if len(c.Reserved) > 0 {
		var sb strings.Builder
		sb.WriteString("package p\n\n")
		form := func(i int) string {
			if i < len(c.ReservedForm) {
				return c.ReservedForm[i]
			}
			return "func"
		}
		for i, r := range c.Reserved {
			switch form(i) {
			case "var": // a package-level variable of function type, called like a function
				fmt.Fprintf(&sb, "var %s = func(a, b int) int { return a + b }\n\n", r)
			case "type": // a declared type, "called" as a conversion
				fmt.Fprintf(&sb, "type %s int\n\n", r)
			// names of the package scope that are never called (3777c2e: reserved all the same)
			case "func0":
				fmt.Fprintf(&sb, "func %s() {}\n\n", r)
			case "var0":
				fmt.Fprintf(&sb, "var %s = 1\n\n", r)
			case "const0":
				fmt.Fprintf(&sb, "const %s = 1\n\n", r)
			case "type0":
				fmt.Fprintf(&sb, "type %s struct{}\n\n", r)
			default:
				fmt.Fprintf(&sb, "func %s(a, b int) int { return a + b }\n\n", r)
			}
		}
		sb.WriteString("func useReserved() int {\n\tn := 0\n")
		for i, r := range c.Reserved {
			switch form(i) {
			case "type":
				fmt.Fprintf(&sb, "\tn += int(%s(3))\n", r)
			case "func", "var":
				fmt.Fprintf(&sb, "\tn += %s(1, 2)\n", r)
			}
		}
		sb.WriteString("\treturn n\n}\n")
		out[c.OtherFile] = gofmt(sb.String())
	}
}

// Esc writes a name as a wire atom (bytes outside [A-Za-z0-9_] as %XX; empty name = %).
func Esc(s string) string {
	if s == "" {
		return "%"
	}
	var sb strings.Builder
	for i := 0; i < len(s); i++ {
		c := s[i]
		if ('0' <= c && c <= '9') || ('A' <= c && c <= 'Z') || ('a' <= c && c <= 'z') || c == '_' {
			sb.WriteByte(c)
		} else {
			fmt.Fprintf(&sb, "%%%02X", c)
		}
	}
	return sb.String()
}

func (c *Case) pluginKind(name string) string {
	for _, p := range c.Plugins {
		if p.Name == name {
			return p.Kind
		}
	}
	return "any"
}

// arity of the wrapper's call for a plugin
func arity(plugin string) int {
	switch plugin {
	case "equal", "compare", "deepcopy", "tuple":
		return 2
	}
	return 1
}

// ModelLine is the `regall` op line the Lean driver answers for one variant. Files are listed in
// the loader's order (alphabetical), calls in source order.
func (c *Case) ModelLine(id string, v Variant) string {
	var sb strings.Builder
	b := func(x bool) string {
		if x {
			return "1"
		}
		return "0"
	}
	fmt.Fprintf(&sb, "op %s regall (flags %s %s", id, b(v.Autoname), b(v.Dedup))
	for _, r := range c.Reserved {
		sb.WriteString(" " + Esc(r))
	}
	for _, r := range ImportNames {
		sb.WriteString(" " + Esc(r))
	}
	// every identifier of the user's files is out of reach for a made-up name (/repo 73e54da, F135); the identifiers
	// that can look like a made-up name are the names of the calls themselves
	seen := map[string]bool{}
	for _, r := range c.Reserved {
		seen[r] = true
	}
	for _, f := range c.Files {
		for _, call := range f.Calls {
			if !seen[call.Name] {
				seen[call.Name] = true
				sb.WriteString(" " + Esc(call.Name))
			}
		}
	}
	sb.WriteString(") (plugins")
	for _, p := range c.Plugins {
		fmt.Fprintf(&sb, " (%s %s)", Esc(p.Prefix), p.Kind)
	}
	sb.WriteString(") (files")
	files := append([]FileSpec(nil), c.Files...)
	sort.SliceStable(files, func(i, j int) bool { return files[i].Name < files[j].Name })
	for _, f := range files {
		sb.WriteString(" (file")
		for _, call := range f.Calls {
			fmt.Fprintf(&sb, " (call %s", Esc(call.Name))
			n := call.Arity
			if n == 0 {
				n = arity(call.Plugin)
			}
			for k := 0; k < n; k++ {
				sb.WriteString(" " + c.Types[call.Type].Wire)
			}
			sb.WriteString(")")
		}
		sb.WriteString(")")
	}
	sb.WriteString(")")
	return sb.String()
}
