package names

import (
	"fmt"
	"math/rand"
	"strings"
)

// T3 op lines (see Driver/OpsGen.lean for the syntax). Streams:
//   tm-exh-id   bounded-exhaustive op sequences over an identity universe (pairwise non-assignable types)
//   tm-exh-asg  the same over a universe where assignability is NOT identity (A []int, B []int, []int)
//   tm-rnd-id / tm-rnd-asg  random longer sequences over larger universes, random prefixes and reserved sets
//   sort / dispatch / eq / imports

type T3Stats struct {
	Lines   map[string]int `json:"lines"`
	Ops     map[string]int `json:"ops"`
	Flags   map[string]int `json:"flags"`
	MaxLen  int            `json:"max_sequence_length"`
	Prefixs map[string]int `json:"prefixes"`
}

type t3gen struct {
	r     *rand.Rand
	lines []string
	st    T3Stats
}

func (g *t3gen) emit(stream, body string) {
	g.lines = append(g.lines, fmt.Sprintf("op %d %s", len(g.lines)+1, body))
	g.st.Lines[stream]++
}

func b01(b bool) string {
	if b {
		return "1"
	}
	return "0"
}

func cfg(prefix string, reserved []string, a, d bool) string {
	rs := make([]string, len(reserved))
	for i, r := range reserved {
		rs[i] = Esc(r)
	}
	return fmt.Sprintf("(cfg %s (%s) %s %s)", Esc(prefix), strings.Join(rs, " "), b01(a), b01(d))
}

var idTypeLists = []string{
	"(nm 0 Ab (st int)) (nm 0 Ab (st int))",
	"(p (nm 0 Ac (st string))) (p (nm 0 Ac (st string)))",
	"int int",
}

var asgTypeLists = []string{
	"(nm 0 A (sl int))",
	"(nm 0 B (sl int))",
	"(sl int)",
}

// trailer observes the whole state after a sequence.
func trailer(lists []string) string {
	s := " (names) (togen) (done)"
	for _, l := range lists {
		s += fmt.Sprintf(" (nameof %s) (newname %s)", l, l)
	}
	return s
}

func (g *t3gen) exhaustive(stream string, lists []string, maxLen int) {
	p := "deriveEqual"
	names := alphabet(p)
	var ops []string
	for _, n := range names {
		for _, l := range lists {
			ops = append(ops, fmt.Sprintf("(set %s %s)", Esc(n), l))
		}
	}
	for _, l := range lists {
		ops = append(ops, fmt.Sprintf("(get %s)", l), fmt.Sprintf("(gen %s)", l))
	}
	tr := trailer(lists)
	var rec func(cur []string)
	rec = func(cur []string) {
		if len(cur) > 0 {
			for _, res := range [][]string{nil, {p + "_"}, {p, p + "_A"}} {
				for _, v := range AllVariants {
					g.emit(stream, "tm "+cfg(p, res, v.Autoname, v.Dedup)+" "+strings.Join(cur, " ")+tr)
					g.st.Flags[v.String()]++
				}
			}
			for _, o := range cur {
				g.st.Ops[o[1:4]]++
			}
		}
		if len(cur) == maxLen {
			return
		}
		for _, o := range ops {
			rec(append(append([]string(nil), cur...), o))
		}
	}
	rec(nil)
}

var idUniverse = []string{
	"(nm 0 Ab (st int))", "(nm 0 Ac (st string))", "(nm 0 Abc (st bool))", "(nm 0 Bn int)", "(p (nm 0 Ab (st int)))",
	"int", "string", "bool", "u8", "f64", "c128", "uintptr",
	"(nm 1 Ab (st int))", "(nm 2 Ab (st int))", "(nm 1 T string)", "(nm 2 T string)",
	"(nm 0 %C3%84b (st int))", "(nm 0 %C3%84%C3%96 (st string))", "(nm 0 x%E4%B8%96y (st bool))",
	"(sl string)", "(m string int)", "(ar 3 int)", "(ch bool)", "(p int)",
}

var asgUniverse = []string{
	"(nm 0 A (sl int))", "(nm 0 B (sl int))", "(sl int)", "iface", "(nm 0 I iface)", "int", "(nm 0 MyInt int)",
	"(st int)", "(nm 0 S (st int))", "(p (nm 0 S (st int)))", "(p (st int))", "(ch int)", "(nm 0 C (ch int))", "func",
	"(nm 0 F func)", "(m string int)", "(nm 0 M (m string int))", "(nm 1 A (sl int))", "(ar 2 (sl int))",
	"(nm 0 %C3%84 (sl int))",
	// channel directions: `chan int` can be passed for `<-chan int` / `chan<- int`, not the other way round
	"(chr int)", "(chs int)", "(nm 0 CR (chr int))", "(chr (ch int))",
	// field tags are part of a struct type's identity (and of assignability)
	"(stt id int)", "(stt ID int)", "(sl (st int))", "(sl (stt id int))", "(p (stt id int))", "(nm 0 ST (stt id int))",
}

// interface types next to types that implement them (0b79109: a type that merely implements an interface
// does not share the function generated for the interface type; identical interface types do)
var ifaceUniverse = []string{
	"error", "(p (nmm 0 MyErr (st int) Error))", "(nmm 0 MyErr (st int) Error)", "iface", "(nm 0 Any iface)", "(nm 1 Any iface)",
	"(if String)", "(nm 0 Stringer (if String))", "(nmm 0 T1 int String)", "(p (nmm 0 T1 int String))",
	"(if Error String)", "(nmm 0 Both (st string) Error String)", "(nm 0 Err2 (if Error))", "(if Error)",
	"int", "string", "(sl int)", "(nm 0 A (sl int))", "(p (nmm 0 Both (st string) Error String))",
	// methods on the pointer only: the method set of the value type is empty, the type still declares methods
	"(nmp 0 PK (st int) Equal)", "(p (nmp 0 PK (st int) Equal))", "(st int)", "(nmp 0 PS (sl int) Equal)",
}

func (g *t3gen) typeList(u []string) string {
	n := 1
	switch x := g.r.Intn(20); {
	case x == 0:
		n = 0
	case x < 9:
		n = 2
	case x == 19:
		n = 3
	}
	ts := make([]string, n)
	for i := range ts {
		if i > 0 && g.r.Intn(3) > 0 {
			ts[i] = ts[0]
		} else {
			ts[i] = u[g.r.Intn(len(u))]
		}
	}
	return strings.Join(ts, " ")
}

func (g *t3gen) random(stream string, u []string, n int) {
	// prefixes that ARE keywords / predeclared identifiers: the bare prefix and (never) prefix_… exercise the
	// `token.IsKeyword || types.Universe.Lookup` branch of typesMap.taken
	prefixes := []string{"deriveEqual", "deriveHash", "d", "", "eq", "deriveÄ", "func", "len", "nil", "string", "go", "int"}
	for i := 0; i < n; i++ {
		p := prefixes[g.r.Intn(len(prefixes))]
		g.st.Prefixs[Esc(p)]++
		pool := []string{p, p + "_", p + "_A", p + "_Ab", p + "_1", p + "_2", p + "X", p + "_i", p + "_in", p + "_int",
			p + "_Ä", p + "_s", p + "_T", p + "_B", p + "_3", p + "_Abc", p + "_Ab3"}
		var res []string
		if g.r.Intn(3) > 0 {
			for _, x := range pool {
				if g.r.Intn(5) == 0 {
					res = append(res, x)
				}
			}
		}
		// a small working set of type lists so that the same lists recur
		var lists []string
		for k := 0; k < 2+g.r.Intn(5); k++ {
			lists = append(lists, g.typeList(u))
		}
		v := AllVariants[g.r.Intn(4)]
		g.st.Flags[v.String()]++
		length := 3 + g.r.Intn(30)
		if length > g.st.MaxLen {
			g.st.MaxLen = length
		}
		var ops []string
		for k := 0; k < length; k++ {
			l := lists[g.r.Intn(len(lists))]
			var o string
			switch x := g.r.Intn(20); {
			case x < 8:
				o = fmt.Sprintf("(set %s %s)", Esc(pool[g.r.Intn(len(pool))]), l)
			case x < 12:
				o = fmt.Sprintf("(get %s)", l)
			case x < 14:
				o = fmt.Sprintf("(gen %s)", l)
			case x < 15:
				o = "(togen)"
			case x < 16:
				o = "(done)"
			case x < 17:
				o = fmt.Sprintf("(nameof %s)", l)
			case x < 19:
				o = fmt.Sprintf("(newname %s)", l)
			default:
				o = "(names)"
			}
			g.st.Ops[o[1:4]]++
			ops = append(ops, o)
		}
		g.emit(stream, "tm "+cfg(p, res, v.Autoname, v.Dedup)+" "+strings.Join(ops, " ")+" (names) (togen) (done)")
	}
}

func (g *t3gen) sorts(n int) {
	pool := []string{"derive", "deriveEqual", "deriveHash", "deriveSort", "deriveSorted", "deriveSet", "d", "", "eq", "eqH", "eqHa",
		"h", "h_T", "hx", "deriveÄ", "deriveZ", "derivf", "DERIVE", "deriveEquaL", "deriveEqual_"}
	perms4 := func(xs []string) [][]string {
		var out [][]string
		var rec func(cur, rest []string)
		rec = func(cur, rest []string) {
			if len(rest) == 0 {
				out = append(out, append([]string(nil), cur...))
				return
			}
			for i := range rest {
				r2 := append(append([]string(nil), rest[:i]...), rest[i+1:]...)
				rec(append(cur, rest[i]), r2)
			}
		}
		rec(nil, xs)
		return out
	}
	line := func(ps []string) string {
		var sb strings.Builder
		sb.WriteString("sortplugins")
		for i, p := range ps {
			fmt.Fprintf(&sb, " (p%d %s)", i, Esc(p))
		}
		return sb.String()
	}
	// every registration order of some 4-element sets (nested prefixes, equal lengths)
	for _, set := range [][]string{{"eq", "eqH", "eqHa", "h"}, {"deriveSort", "deriveSorted", "deriveSet", "deriveHash"}, {"ab", "ba", "aa", "b"}} {
		for _, p := range perms4(set) {
			g.emit("sort", line(p))
		}
	}
	// the real table in main.go's order and shuffled, with and without overrides
	def := make([]string, len(DefaultPlugins))
	for i, d := range DefaultPlugins {
		def[i] = d[1]
	}
	g.emit("sort", line(def))
	for i := 0; i < n; i++ {
		var ps []string
		if g.r.Intn(2) == 0 {
			ps = append([]string(nil), def...)
			for k := 0; k < g.r.Intn(4); k++ {
				ps[g.r.Intn(len(ps))] = pool[g.r.Intn(len(pool))]
			}
		} else {
			for k := 0; k < 1+g.r.Intn(8); k++ {
				ps = append(ps, pool[g.r.Intn(len(pool))])
			}
		}
		g.r.Shuffle(len(ps), func(a, b int) { ps[a], ps[b] = ps[b], ps[a] })
		g.emit("sort", line(ps))
		// dispatch of a few call names against the same set
		for k := 0; k < 3; k++ {
			call := pool[g.r.Intn(len(pool))] + []string{"", "X", "_", "H", "a", "ed"}[g.r.Intn(6)]
			es := make([]string, len(ps))
			for j, p := range ps {
				es[j] = Esc(p)
			}
			g.emit("dispatch", "dispatch "+Esc(call)+" "+strings.Join(es, " "))
		}
	}
}

func (g *t3gen) eqs(n int) {
	all := append(append(append([]string(nil), idUniverse...), asgUniverse...), ifaceUniverse...)
	for _, u := range [][]string{asgUniverse, ifaceUniverse} {
		for i := 0; i < len(u); i++ {
			for j := 0; j < len(u); j++ {
				g.emit("eq", fmt.Sprintf("eq (%s) (%s)", u[i], u[j]))
			}
		}
	}
	for i := 0; i < n; i++ {
		a, b := g.typeList(all), g.typeList(all)
		if g.r.Intn(3) == 0 {
			b = a
		}
		g.emit("eq", fmt.Sprintf("eq (%s) (%s)", a, b))
	}
}

func (g *t3gen) imports(n int) {
	names := []string{"lib", "fmt", "bytes", "other", "a_b_lib"}
	paths := []string{"a/b/lib", "c/d/lib", "x/vendor/a/b/lib", "vendor/c/d/lib", "fmt", "bytes", "a/b-c/lib", "a_b_lib",
		"x/vendor/y/vendor/fmt", "a.b/lib", "a/b/lib2"}
	for i := 0; i < n; i++ {
		var sb strings.Builder
		sb.WriteString("imports")
		for k := 0; k < 1+g.r.Intn(6); k++ {
			p := paths[g.r.Intn(len(paths))]
			nm := names[g.r.Intn(len(names))]
			if g.r.Intn(2) == 0 {
				nm = p[strings.LastIndex(p, "/")+1:]
			}
			fmt.Fprintf(&sb, " (%s %s)", Esc(nm), Esc(p))
		}
		g.emit("imports", sb.String())
	}
}

// T3Lines generates the op lines of the in-process tie.
func T3Lines(r *rand.Rand, thorough bool) ([]string, T3Stats) {
	g := &t3gen{r: r, st: T3Stats{Lines: map[string]int{}, Ops: map[string]int{}, Flags: map[string]int{}, Prefixs: map[string]int{}}}
	k, n := 3, 1
	if thorough {
		k, n = 4, 10
	}
	g.exhaustive("tm-exh-id", idTypeLists, k)
	g.exhaustive("tm-exh-asg", asgTypeLists, k)
	g.random("tm-rnd-id", idUniverse, 3000*n)
	g.random("tm-rnd-asg", asgUniverse, 3000*n)
	g.random("tm-rnd-iface", ifaceUniverse, 3000*n)
	g.exhaustive("tm-exh-iface", []string{"error", "(p (nmm 0 MyErr (st int) Error))", "iface"}, k-1)
	g.exhaustive("tm-exh-chan", []string{"(ch int)", "(chr int)", "(nm 0 C (ch int))"}, k)
	g.exhaustive("tm-exh-tags", []string{"(sl (st int))", "(sl (stt id int))", "(nm 0 S (st int))"}, k-1)
	g.sorts(400 * n)
	g.eqs(1000 * n)
	g.imports(300 * n)
	return g.lines, g.st
}
