package names

import (
	"bytes"
	"fmt"
	"go/ast"
	"go/parser"
	"go/printer"
	"go/token"
	"go/types"
	"os"
	"path/filepath"
	"sort"
	"strconv"
	"strings"
)

// Facts (T4 for C12): what the theorems of Props/C12.lean assume about the source, re-extracted from
// /repo on every run with go/ast.
type Facts struct {
	Plugins       [][2]string `json:"plugins"`        // main.go registration order: (name, default prefix) from derive.NewPlugin(name, prefix, …)
	ReplaceSite   string      `json:"replace_site"`   // the prefix substitution expression in main.go
	OverrideSite  bool        `json:"override_site"`  // `newprefix, override := overridePrefixes[p.Name()]; if override { pluginprefix = newprefix }`
	SortLess      string      `json:"sort_less"`      // body of the less function given to sort.Slice in sortPlugins
	AddLoop       string      `json:"add_loop"`       // the dispatch condition in pkg.Add
	PanicGuard    string      `json:"panic_guard"`    // condition guarding panic("unreachable: function names cannot be changed…")
	NewNameSource string      `json:"newname_source"` // the candidate-building statements of newName
	TakenSource   string      `json:"taken_source"`   // body of typesMap.taken
	ImportNames   []string    `json:"import_names"`   // names given to p.NewImport(name, path) in plugin/*/*.go
	ImportAssumed []string    `json:"import_names_assumed"` // names.ImportNames: what the model lines put into `reserved`
	ReservedWords []string    `json:"reserved_words"` // go/token keywords, then types.Universe.Names(), of the toolchain this tool is built with
}

func src(fset *token.FileSet, n ast.Node) string {
	var b bytes.Buffer
	printer.Fprint(&b, fset, n)
	return strings.Join(strings.Fields(b.String()), " ")
}

// ExtractFacts reads repo/main.go, repo/plugin/*/*.go, repo/derive/generate.go, repo/derive/typesmap.go.
func ExtractFacts(repo string) (*Facts, error) {
	fs := &Facts{}
	fset := token.NewFileSet()
	// plugin name/prefix by package directory
	byDir := map[string][2]string{}
	importNames := map[string]bool{}
	dirs, err := os.ReadDir(filepath.Join(repo, "plugin"))
	if err != nil {
		return nil, err
	}
	for _, d := range dirs {
		if !d.IsDir() {
			continue
		}
		files, _ := filepath.Glob(filepath.Join(repo, "plugin", d.Name(), "*.go"))
		for _, fn := range files {
			if strings.HasSuffix(fn, "_test.go") {
				continue
			}
			f, err := parser.ParseFile(fset, fn, nil, 0)
			if err != nil {
				return nil, err
			}
			ast.Inspect(f, func(n ast.Node) bool {
				call, ok := n.(*ast.CallExpr)
				if !ok {
					return true
				}
				sel, ok := call.Fun.(*ast.SelectorExpr)
				if ok && sel.Sel.Name == "NewImport" && len(call.Args) == 2 {
					if lit, ok := call.Args[0].(*ast.BasicLit); ok {
						if nm, err := strconv.Unquote(lit.Value); err == nil {
							importNames[nm] = true
						}
					}
					return true
				}
				if !ok || sel.Sel.Name != "NewPlugin" || len(call.Args) != 3 {
					return true
				}
				if x, ok := sel.X.(*ast.Ident); !ok || x.Name != "derive" {
					return true
				}
				a, ok1 := call.Args[0].(*ast.BasicLit)
				b, ok2 := call.Args[1].(*ast.BasicLit)
				if ok1 && ok2 {
					n1, _ := strconv.Unquote(a.Value)
					n2, _ := strconv.Unquote(b.Value)
					if prev, dup := byDir[d.Name()]; dup && prev != [2]string{n1, n2} {
						byDir[d.Name()] = [2]string{"?dup", "?dup"}
					} else {
						byDir[d.Name()] = [2]string{n1, n2}
					}
				}
				return true
			})
		}
	}
	for n := range importNames {
		fs.ImportNames = append(fs.ImportNames, n)
	}
	sort.Strings(fs.ImportNames)
	fs.ImportAssumed = append([]string(nil), ImportNames...)
	// main.go: import alias -> plugin dir; registration order
	mf, err := parser.ParseFile(fset, filepath.Join(repo, "main.go"), nil, 0)
	if err != nil {
		return nil, err
	}
	alias := map[string]string{}
	for _, im := range mf.Imports {
		p, _ := strconv.Unquote(im.Path.Value)
		if i := strings.Index(p, "/plugin/"); i >= 0 {
			dir := p[i+len("/plugin/"):]
			name := filepath.Base(dir)
			if im.Name != nil {
				name = im.Name.Name
			}
			alias[name] = dir
		}
	}
	ast.Inspect(mf, func(n ast.Node) bool {
		switch x := n.(type) {
		case *ast.CompositeLit:
			if src(fset, x.Type) == "[]derive.Plugin" {
				for _, e := range x.Elts {
					call, ok := e.(*ast.CallExpr)
					if !ok {
						fs.Plugins = append(fs.Plugins, [2]string{"?", src(fset, e)})
						continue
					}
					sel, ok := call.Fun.(*ast.SelectorExpr)
					if !ok || sel.Sel.Name != "NewPlugin" {
						fs.Plugins = append(fs.Plugins, [2]string{"?", src(fset, e)})
						continue
					}
					dir := alias[src(fset, sel.X)]
					np, ok := byDir[dir]
					if !ok {
						np = [2]string{"?" + dir, "?"}
					}
					fs.Plugins = append(fs.Plugins, np)
				}
			}
		case *ast.CallExpr:
			if s := src(fset, x.Fun); s == "strings.Replace" {
				fs.ReplaceSite = src(fset, x)
			}
		case *ast.IfStmt:
			if src(fset, x.Cond) == "override" && src(fset, x.Body) == "{ pluginprefix = newprefix }" {
				fs.OverrideSite = true
			}
		}
		return true
	})
	// derive/generate.go
	gf, err := parser.ParseFile(fset, filepath.Join(repo, "derive", "generate.go"), nil, 0)
	if err != nil {
		return nil, err
	}
	for _, d := range gf.Decls {
		fd, ok := d.(*ast.FuncDecl)
		if !ok {
			continue
		}
		switch fd.Name.Name {
		case "sortPlugins":
			ast.Inspect(fd, func(n ast.Node) bool {
				if fl, ok := n.(*ast.FuncLit); ok {
					fs.SortLess = src(fset, fl.Body)
				}
				return true
			})
		case "Add":
			ast.Inspect(fd, func(n ast.Node) bool {
				if is, ok := n.(*ast.IfStmt); ok && fs.AddLoop == "" {
					fs.AddLoop = src(fset, is.Cond) + " " + src(fset, is.Body)
				}
				return true
			})
		case "newPackage":
			ast.Inspect(fd, func(n ast.Node) bool {
				is, ok := n.(*ast.IfStmt)
				if !ok {
					return true
				}
				if strings.Contains(src(fset, is.Body), `panic("unreachable: function names cannot be changed`) && !strings.Contains(src(fset, is.Cond), "name != call.Name") {
					fs.PanicGuard = src(fset, is.Cond)
				}
				return true
			})
		}
	}
	tf, err := parser.ParseFile(fset, filepath.Join(repo, "derive", "typesmap.go"), nil, 0)
	if err != nil {
		return nil, err
	}
	for t := token.Token(0); t < 512; t++ {
		if t.IsKeyword() {
			fs.ReservedWords = append(fs.ReservedWords, t.String())
		}
	}
	sort.Strings(fs.ReservedWords)
	un := types.Universe.Names()
	sort.Strings(un)
	fs.ReservedWords = append(fs.ReservedWords, un...)
	for _, d := range tf.Decls {
		if fd, ok := d.(*ast.FuncDecl); ok && fd.Name.Name == "taken" && fd.Body != nil {
			fs.TakenSource = src(fset, fd.Body)
		}
		if fd, ok := d.(*ast.FuncDecl); ok && fd.Name.Name == "newName" {
			ast.Inspect(fd, func(n ast.Node) bool {
				if fl, ok := n.(*ast.ForStmt); ok {
					fs.NewNameSource = fmt.Sprintf("for %s %s", src(fset, fl.Cond), src(fset, fl.Body))
				}
				return true
			})
		}
	}
	return fs, nil
}
