package names

import (
	"fmt"
	"math/rand"
	"sort"
	"strings"
)

// ---------------------------------------------------------------- C11

// The three pairwise non-assignable argument types of the exhaustive stream. Their name fragments
// for newName differ in kind: "Ab" (named), "" (pointer), "int" (basic).
var C11Types = []TypeSpec{
	{Go: "Ab", Wire: "(nm 0 Ab (st int))", Decl: "type Ab struct{ X int }"},
	{Go: "*Ac", Wire: "(p (nm 0 Ac (st string)))", Decl: "type Ac struct{ Y string }"},
	{Go: "int", Wire: "int"},
}

// name alphabet per plugin prefix P: P, P_, P_A — the first candidates newName tries for the types
// above, so that user names collide with minted names.
func alphabet(p string) []string { return []string{p, p + "_", p + "_A"} }

// reservedPool: identifiers a user function "called elsewhere" may have: candidates of newName.
func reservedPool(p string) []string {
	return []string{p, p + "_", p + "_A", p + "_Ab", p + "_1", p + "_i", p + "_in", p + "_2"}
}

type opt struct {
	plugin string
	name   int
	typ    int
	arity  int
}

// hintOf: the name fragment newName derives from a first argument of this type.
func hintOf(t TypeSpec) string {
	if strings.ContainsAny(t.Go, "*[]( ") {
		return ""
	}
	return t.Go
}

// candidates: the first names newName tries after the bare prefix, for a first argument type with this hint.
func candidates(p, hint string) []string {
	out := []string{p, p + "_"} // the bare prefix is the first candidate
	rs := []rune(hint)
	for i := 1; i <= len(rs); i++ {
		out = append(out, p+"_"+string(rs[:i]))
	}
	for i := len(rs) + 1; i <= len(rs)+3; i++ {
		out = append(out, fmt.Sprintf("%s_%s%d", p, hint, i))
	}
	return out
}

var reservedForms = []string{"func", "var", "type", "func0", "var0", "const0", "type0"}

// decorate picks the reserved names (identifiers the user declares and calls elsewhere, as a function, a
// func-typed variable or a type used in a conversion; never names of derive calls) and the split into
// files. When the package has a conflict, the reserved names are, two times out of three, exactly the
// next candidates newName will try for the conflicting call.
func decorate(r *rand.Rand, c *Case, calls []CallSpec, prefixOf map[string]string) {
	used := map[string]bool{}
	for _, cl := range calls {
		used[cl.Name] = true
	}
	add := func(n string) {
		if used[n] {
			return
		}
		used[n] = true
		c.Reserved = append(c.Reserved, n)
		c.ReservedForm = append(c.ReservedForm, reservedForms[r.Intn(len(reservedForms))])
	}
	// conflicting later calls
	var targets []CallSpec
	for j := range calls {
		for i := 0; i < j; i++ {
			if calls[i].Plugin == calls[j].Plugin && calls[i].Name == calls[j].Name &&
				(calls[i].Type != calls[j].Type || calls[i].Arity != calls[j].Arity) {
				targets = append(targets, calls[j])
				break
			}
		}
	}
	switch x := r.Intn(3); {
	case len(targets) > 0 && x > 0:
		t := targets[r.Intn(len(targets))]
		cs := candidates(prefixOf[t.Plugin], hintOf(c.Types[t.Type]))
		k := 1 + r.Intn(3)
		for _, n := range cs {
			if k == 0 {
				break
			}
			if !used[n] {
				add(n)
				k--
			}
		}
	case x > 0:
		ps := make([]string, 0, len(prefixOf))
		for _, p := range prefixOf {
			ps = append(ps, p)
		}
		sort.Strings(ps)
		for _, p := range ps {
			for _, n := range reservedPool(p) {
				if r.Intn(4) == 0 {
					add(n)
				}
			}
		}
	}
	// one call site in four is an argument of a builtin call (append / panic): still a call to register and rename
	for i := range calls {
		if calls[i].Inner == "" && r.Intn(4) == 0 {
			calls[i].Builtin = []string{"append", "panic"}[r.Intn(2)]
		}
	}
	// one package in six: the user files carry the header of generated code (output of another generator)
	c.GenHeader = r.Intn(6) == 0
	c.OtherFile = []string{"0_other.go", "m_other.go", "z_other.go"}[r.Intn(3)]
	if len(calls) >= 2 && r.Intn(2) == 0 {
		cut := 1 + r.Intn(len(calls)-1)
		c.Files = []FileSpec{{Name: "a.go", Calls: calls[:cut]}, {Name: "b.go", Calls: calls[cut:]}}
	} else {
		c.Files = []FileSpec{{Name: "a.go", Calls: calls}}
	}
}

// ExhaustiveC11: all assignments of 1..k calls to (plugin in {equal, hash}) x (name in the 3-name
// alphabet of that plugin) x (type in C11Types), each under all four flag combinations (stream
// "exhaustive"); and all assignments of 1..k calls of the equal plugin to (name) x (type) x (one or two
// arguments: the curried form deriveEqual(p) next to deriveEqual(p, q)) that contain at least one
// one-argument call (stream "exhaustive-arity": argument lists of which one is a proper prefix of another).
func ExhaustiveC11(r *rand.Rand, k int, thorough bool) []*Case {
	plugins := Plugins("derive", nil)
	pfx := map[string]string{"equal": "deriveEqual", "hash": "deriveHash"}
	var out []*Case
	enum := func(stream string, opts []opt, k int, keep func([]opt) bool) {
		var rec func(cur []opt)
		rec = func(cur []opt) {
			if len(cur) > 0 && keep(cur) {
				calls := make([]CallSpec, len(cur))
				for i, o := range cur {
					calls[i] = CallSpec{Plugin: o.plugin, Name: alphabet(pfx[o.plugin])[o.name], Type: o.typ, Arity: o.arity}
				}
				c := &Case{ID: fmt.Sprintf("x%d", len(out)), Stream: stream, Types: C11Types, Plugins: plugins,
					Variants: AllVariants}
				decorate(r, c, calls, pfx)
				out = append(out, c)
			}
			if len(cur) == k {
				return
			}
			for _, o := range opts {
				rec(append(append([]opt(nil), cur...), o))
			}
		}
		rec(nil)
	}
	var opts, optsA []opt
	for _, pl := range []string{"equal", "hash"} {
		for n := 0; n < 3; n++ {
			for t := 0; t < 3; t++ {
				opts = append(opts, opt{pl, n, t, arity(pl)})
			}
		}
	}
	for n := 0; n < 3; n++ {
		for t := 0; t < 3; t++ {
			optsA = append(optsA, opt{"equal", n, t, 2}, opt{"equal", n, t, 1})
		}
	}
	ka := k
	if ka > 3 { // the arity stream stays at 3 calls in the thorough tier (time budget)
		ka = 3
	}
	enum("exhaustive", opts, k, func([]opt) bool { return true })
	// one or two names of the equal plugin used 4 (5) times over the three types: a name renamed by -autoname
	// for several type lists, earlier lists coming again (all sequences)
	var optsR1, optsR2 []opt
	for t := 0; t < 3; t++ {
		optsR1 = append(optsR1, opt{"equal", 0, t, 2})
		optsR2 = append(optsR2, opt{"equal", 0, t, 2}, opt{"equal", 1, t, 2})
	}
	enum("exhaustive-repeat", optsR1, 5, func(cur []opt) bool { return len(cur) >= 4 })
	enum("exhaustive-repeat", optsR2, 4, func(cur []opt) bool {
		two := false
		for _, o := range cur {
			two = two || o.name == 1
		}
		return len(cur) == 4 && two
	})
	// quick tier: all sequences of <= 2 calls, and the sequences of 3 calls over ONE type (a list and its
	// proper prefix need the same element type to be confused); thorough tier: all sequences of <= 3 calls
	enum("exhaustive-arity", optsA, ka, func(cur []opt) bool {
		one := false
		for _, o := range cur {
			if o.arity == 1 {
				one = true
			}
			if !thorough && len(cur) > 2 && o.typ != cur[0].typ {
				return false
			}
		}
		return one
	})
	return out
}

// RandomC11: larger packages (5..12 calls) over more types (shared first letters, a non-ASCII type
// name, a type from the same package used by pointer and by value) with injected collisions.
func RandomC11(r *rand.Rand, n int) []*Case {
	typs := []TypeSpec{
		{Go: "Ab", Wire: "(nm 0 Ab (st int))", Decl: "type Ab struct{ X int }"},
		{Go: "*Ab", Wire: "(p (nm 0 Ab (st int)))", Decl: "type Ab struct{ X int }"},
		{Go: "Abc", Wire: "(nm 0 Abc (st string))", Decl: "type Abc struct{ Y string }"},
		{Go: "*Ac", Wire: "(p (nm 0 Ac (st string)))", Decl: "type Ac struct{ Y string }"},
		{Go: "Äb", Wire: "(nm 0 %C3%84b (st bool))", Decl: "type Äb struct{ Z bool }"},
		{Go: "int", Wire: "int"},
		{Go: "string", Wire: "string"},
		{Go: "MyInt", Wire: "(nm 0 MyInt int)", Decl: "type MyInt int"},
	}
	plugins := Plugins("derive", nil)
	pfx := map[string]string{"equal": "deriveEqual", "hash": "deriveHash", "compare": "deriveCompare", "tuple": "deriveTuple"}
	var out []*Case
	for i := 0; i < n; i++ {
		nc := 5 + r.Intn(8)
		var calls []CallSpec
		for j := 0; j < nc; j++ {
			pl := []string{"equal", "hash", "compare", "tuple", "equal"}[r.Intn(5)]
			p := pfx[pl]
			pool := []string{p, p + "_", p + "_A", p + "_Ab", p + "_1", p + "X", p + "_i", p + "_Ä"}
			name := pool[r.Intn(len(pool))]
			t := r.Intn(len(typs))
			// inject a collision with an earlier call of the same plugin
			if len(calls) > 0 && r.Intn(3) == 0 {
				e := calls[r.Intn(len(calls))]
				if e.Plugin == pl {
					if r.Intn(2) == 0 {
						name = e.Name // same name, (probably) other type: conflict
					} else {
						t = e.Type // same type, (probably) other name: duplicate
					}
				}
			}
			cl := Call(pl, name, t)
			// one-argument forms: curried equal / compare, tuple of one (argument lists that are prefixes of others)
			if pl != "hash" && r.Intn(3) == 0 {
				cl.Arity = 1
			}
			calls = append(calls, cl)
		}
		c := &Case{ID: fmt.Sprintf("r%d", i), Stream: "random", Types: typs, Plugins: plugins, Variants: AllVariants}
		decorate(r, c, calls, pfx)
		out = append(out, c)
	}
	return out
}

// ---------------------------------------------------------------- C12

// richTypes: a small random universe of struct types that need helper functions.
// methodTypes: types that bring their OWN Equal / Compare / Hash / DeepCopy methods, with pointer
// receivers (Mp) and value receivers (Mv). As fields of the argument types they make method dispatch part
// of what must be equal up to renaming: the plugins must find the methods whatever the prefixes are.
const methodTypes = `type Mp struct{ K int }

func (m *Mp) Equal(that *Mp) bool { return m.K == that.K }
func (m *Mp) Compare(that *Mp) int { return m.K - that.K }
func (m *Mp) Hash() uint64        { return uint64(m.K) }
func (m *Mp) DeepCopy(to *Mp)     { *to = *m }

type Mv struct{ K int }

func (m Mv) Equal(that Mv) bool { return m.K == that.K }
func (m Mv) Compare(that Mv) int { return m.K - that.K }
func (m Mv) Hash() uint64       { return uint64(m.K) }
func (m Mv) DeepCopy(to *Mv)    { *to = m }`

func richTypes(r *rand.Rand) (decls []string, structs []string) {
	n := 2 + r.Intn(3)
	names := []string{"In", "Mid", "Out", "Item", "Inner"}[:n]
	fieldTypes := func(i int) []string {
		ft := []string{"int", "string", "bool", "[]int", "[]string", "map[string]int", "*int", "[2]int", "float64",
			"Mp", "*Mp", "Mv", "*Mv", "[]Mp", "[]*Mv", "map[string]Mv"}
		for j := 0; j < i; j++ {
			ft = append(ft, names[j], "*"+names[j], "[]"+names[j], "[]*"+names[j], "map[string]"+names[j], "map[int]*"+names[j])
		}
		return ft
	}
	decls = append(decls, methodTypes)
	for i, nm := range names {
		ft := fieldTypes(i)
		nf := 1 + r.Intn(4)
		var sb strings.Builder
		fmt.Fprintf(&sb, "type %s struct {\n", nm)
		for f := 0; f < nf; f++ {
			fmt.Fprintf(&sb, "\tF%d %s\n", f, ft[r.Intn(len(ft))])
		}
		if i == 0 {
			// every package has fields of the method-bearing types, by value and by pointer
			mt := [][2]string{{"Mp", "*Mv"}, {"*Mp", "Mv"}, {"Mp", "Mv"}, {"*Mp", "*Mv"}}[r.Intn(4)]
			fmt.Fprintf(&sb, "\tP %s\n\tV %s\n", mt[0], mt[1])
		}
		sb.WriteString("}")
		decls = append(decls, sb.String())
	}
	return decls, names
}

var c12Suffixes = []string{"", "", "X", "_", "2", "Of", "_A"}

var c12Heads = []string{"kip", "mk", "qz", "zed", "vax", "wob"}
var c12Syllables = []string{"Qz", "Ka", "Lo", "Mu", "Ne", "Pi", "Ro", "Su", "Ty", "Vu", "Wa", "Xe", "Yo", "Zi", "Bo", "Cu", "Di", "Fa", "Gu", "Ha"}

// RichC12 generates groups of cases: one package under the default prefixes and its consistently
// renamed copies under -prefix / -pluginprefix. Within one group all cases must produce the same
// functions up to renaming.
func RichC12(r *rand.Rand, n int) []*Case {
	var out []*Case
	for g := 0; g < n; g++ {
		decls, structs := richTypes(r)
		alldecl := strings.Join(decls, "\n\n")
		var typs []TypeSpec
		for _, s := range structs {
			typs = append(typs, TypeSpec{Go: "*" + s, Wire: fmt.Sprintf("(p (nm 0 %s (st)))", s), Decl: alldecl})
			typs = append(typs, TypeSpec{Go: "[]" + s, Wire: fmt.Sprintf("(sl (nm 0 %s (st)))", s), Decl: alldecl})
			typs = append(typs, TypeSpec{Go: "map[string]" + s, Wire: fmt.Sprintf("(m string (nm 0 %s (st)))", s), Decl: alldecl})
		}
		typs = append(typs, TypeSpec{Go: "[]int", Wire: "(sl int)", Decl: alldecl}, TypeSpec{Go: "[]string", Wire: "(sl string)", Decl: alldecl})
		// calls: (plugin, suffix, type); the name is prefix(plugin)+suffix
		type pc struct {
			plugin, suffix string
			typ            int
		}
		var pcs []pc
		seen := map[string]bool{}
		nc := 3 + r.Intn(6)
		for len(pcs) < nc {
			pl := []string{"equal", "compare", "hash", "deepcopy", "clone", "keys", "sort", "unique"}[r.Intn(8)]
			var cand []int
			for i, t := range typs {
				switch pl {
				case "keys":
					if strings.HasPrefix(t.Go, "map[") {
						cand = append(cand, i)
					}
				case "sort", "unique":
					if strings.HasPrefix(t.Go, "[]") {
						cand = append(cand, i)
					}
				case "deepcopy":
					if strings.HasPrefix(t.Go, "*") || strings.HasPrefix(t.Go, "[]") {
						cand = append(cand, i)
					}
				default:
					cand = append(cand, i)
				}
			}
			t := cand[r.Intn(len(cand))]
			// one name per (plugin, type) and one type per name: no clashes in these packages
			key := pl + "/" + typs[t].Go
			if seen[key] {
				continue
			}
			sfx := c12Suffixes[r.Intn(len(c12Suffixes))]
			if seen[pl+"#"+sfx] {
				sfx = fmt.Sprintf("N%d", len(pcs))
			}
			seen[key], seen[pl+"#"+sfx] = true, true
			pcs = append(pcs, pc{pl, sfx, t})
		}
		mk := func(id, rename, p string, ov map[string]string) *Case {
			pls := Plugins(p, ov)
			pre := map[string]string{}
			for _, x := range pls {
				pre[x.Name] = x.Prefix
			}
			calls := make([]CallSpec, len(pcs))
			for i, x := range pcs {
				calls[i] = Call(x.plugin, pre[x.plugin] + x.suffix, x.typ)
			}
			c := &Case{ID: id, Stream: "c12", Types: typs, Plugins: pls, GoderiveArgs: PrefixArgs(p, ov),
				Variants: []Variant{{false, false}}, KeepDerived: true, Group: fmt.Sprintf("g%d", g), Rename: rename}
			if len(calls) >= 2 && g%2 == 0 {
				cut := len(calls) / 2
				c.Files = []FileSpec{{Name: "a.go", Calls: calls[:cut]}, {Name: "b.go", Calls: calls[cut:]}}
			} else {
				c.Files = []FileSpec{{Name: "a.go", Calls: calls}}
			}
			return c
		}
		id := func(s string) string { return fmt.Sprintf("g%d-%s", g, s) }
		out = append(out, mk(id("default"), "default", "derive", nil))
		for _, p := range []string{"derivX", "gen", "deriveNew", "drv", "Derive"} {
			out = append(out, mk(id("prefix-"+p), "global:"+p, p, nil))
		}
		// per-plugin overrides, prefix-free: distinct first letters
		used := map[string]bool{}
		for _, x := range pcs {
			used[x.plugin] = true
		}
		var ups []string
		for p := range used {
			ups = append(ups, p)
		}
		sort.Strings(ups)
		// Prefixes that cannot be captured by anything else in the package: head + one capitalised
		// syllable (+ tail), at least 4 letters, never an identifier of the package template (a, b, n,
		// Wrap<i>, F<i>, …), a local of the emitted code (this, that, dst, src, object, h, v, i, k, …), a Go
		// keyword or a predeclared identifier; distinct syllables make the set prefix-free.
		ov := map[string]string{}
		syl := r.Perm(len(c12Syllables))
		for i, p := range ups {
			if r.Intn(3) > 0 {
				ov[p] = c12Heads[r.Intn(len(c12Heads))] + c12Syllables[syl[i]] + []string{"", "x", "Gen", "_"}[r.Intn(4)]
			}
		}
		if len(ov) > 0 {
			out = append(out, mk(id("plugin-free"), "plugin-free", "derive", ov))
		}
		// nested overrides: every used plugin's prefix extends the previous one by a letter that no
		// call suffix starts with ('Q'), so dispatch is still by the intended plugin, but every
		// prefix is a proper prefix of the next.
		nov := map[string]string{}
		cur := "nst"
		for _, p := range ups {
			nov[p] = cur
			cur += "Q"
		}
		out = append(out, mk(id("plugin-nested"), "plugin-nested", "derive", nov))
		// global prefix and overrides together
		if len(ov) > 0 {
			out = append(out, mk(id("both"), "both", "gen", ov))
		}
		// global prefix together with overrides whose VALUES contain the text "derive" or the global
		// prefix: main.go substitutes "derive" only in the DEFAULT prefix; an override is taken verbatim
		// (equal=deriveEqual keeps the plugin on its historical name under -prefix=gen).
		def := map[string]string{}
		for _, d := range DefaultPlugins {
			def[d[0]] = d[1]
		}
		dov := map[string]string{ups[0]: def[ups[0]]}
		if len(ups) > 1 {
			dov[ups[1]] = "genQz"
		}
		if len(ups) > 2 {
			dov[ups[2]] = "qderivez"
		}
		out = append(out, mk(id("both-derive"), "both-derive", "gen", dov))
		out = append(out, mk(id("both-derive2"), "both-derive2", "deriveNew", map[string]string{ups[len(ups)-1]: def[ups[len(ups)-1]]}))
	}
	return out
}

// NestedC12: packages under the default prefixes and under overrides in which every prefix is a
// proper prefix of the next (e.g. equal=gen, hash=genHash, sort=genS, set=genSet) with calls named
// exactly by the prefix or prefix + a suffix that no longer prefix matches. Longest-prefix dispatch makes
// the renamed run succeed with the same functions as the default run (same group => compared).
func NestedC12(r *rand.Rand, n int) []*Case {
	decl := "type S struct {\n\tA int\n\tB string\n}"
	typs := []TypeSpec{
		{Go: "*S", Wire: "(p (nm 0 S (st)))", Decl: decl},
		{Go: "[]int", Wire: "(sl int)", Decl: decl},
		{Go: "[]string", Wire: "(sl string)", Decl: decl},
	}
	typeFor := map[string][]int{"equal": {0, 1}, "hash": {0, 2}, "compare": {0, 1}, "clone": {0, 2}, "sort": {1, 2}, "set": {1, 2}, "unique": {1, 2}}
	all := []string{"equal", "hash", "sort", "set", "compare", "clone", "unique"}
	words := []string{"Hash", "S", "et", "Q", "Zed", "x", "H"}
	def := map[string]string{}
	for _, d := range DefaultPlugins {
		def[d[0]] = d[1]
	}
	var out []*Case
	for g := 0; g < n; g++ {
		var pls []string
		var chain []string
		if g == 0 {
			pls = []string{"equal", "hash", "sort", "set"}
			chain = []string{"gen", "genHash", "genS", "genSet"}
		} else {
			perm := r.Perm(len(all))
			k := 2 + r.Intn(4)
			cur := []string{"gen", "nst", "eqv"}[r.Intn(3)]
			for i := 0; i < k; i++ {
				pls = append(pls, all[perm[i]])
				chain = append(chain, cur)
				cur += words[r.Intn(len(words))]
			}
			// the order in which the plugins get the chain is random: shuffle the assignment
			r.Shuffle(len(chain), func(a, b int) { chain[a], chain[b] = chain[b], chain[a] })
		}
		nested := map[string]string{}
		for i, p := range pls {
			nested[p] = chain[i]
		}
		type pc struct {
			plugin, suffix string
			typ            int
		}
		var pcs []pc
		for _, p := range pls {
			ts := typeFor[p]
			pcs = append(pcs, pc{p, "", ts[r.Intn(len(ts))]})
			if r.Intn(2) == 0 {
				t2 := ts[r.Intn(len(ts))]
				if t2 != pcs[len(pcs)-1].typ {
					pcs = append(pcs, pc{p, []string{"_", "2", "_b"}[r.Intn(3)], t2})
				}
			}
		}
		r.Shuffle(len(pcs), func(a, b int) { pcs[a], pcs[b] = pcs[b], pcs[a] })
		mk := func(id, rename string, ov map[string]string) *Case {
			pl := Plugins("derive", ov)
			pre := map[string]string{}
			for _, x := range pl {
				pre[x.Name] = x.Prefix
			}
			calls := make([]CallSpec, len(pcs))
			for i, x := range pcs {
				calls[i] = Call(x.plugin, pre[x.plugin]+x.suffix, x.typ)
			}
			return &Case{ID: id, Stream: "c12", Types: typs, Plugins: pl, GoderiveArgs: PrefixArgs("derive", ov),
				Variants: []Variant{{false, false}}, KeepDerived: true, Group: fmt.Sprintf("n%d", g), Rename: rename,
				Files: []FileSpec{{Name: "a.go", Calls: calls}}}
		}
		out = append(out, mk(fmt.Sprintf("n%d-default", g), "default", nil))
		out = append(out, mk(fmt.Sprintf("n%d-nested", g), "plugin-nested", nested))
	}
	return out
}

// CaptureC12: tiny packages under nested overrides where the call names decide the handler
// (equal=eqv, hash=eqvH, compare=eqvHa): the model predicts handler / rejection; all four flag variants.
func CaptureC12(r *rand.Rand, n int) []*Case {
	ov := map[string]string{"equal": "eqv", "hash": "eqvH", "compare": "eqvHa"}
	pls := Plugins("derive", ov)
	names := []string{"eqv", "eqvH", "eqvHa", "eqvX", "eqvHX", "eqvHaX", "eqv_", "eqvH_", "eqvHash", "eqvHal"}
	var out []*Case
	for i := 0; i < n; i++ {
		nc := 1 + r.Intn(3)
		var calls []CallSpec
		for j := 0; j < nc; j++ {
			// the wrapper shape (arity) is chosen independently of the handler the name selects
			pl := []string{"equal", "hash", "compare"}[r.Intn(3)]
			calls = append(calls, Call(pl, names[r.Intn(len(names))], r.Intn(3)))
		}
		c := &Case{ID: fmt.Sprintf("cap%d", i), Stream: "capture", Types: C11Types, Plugins: pls,
			GoderiveArgs: PrefixArgs("derive", ov), Variants: []Variant{{false, false}, {true, true}},
			Files: []FileSpec{{Name: "a.go", Calls: calls}}, OtherFile: "z_other.go"}
		out = append(out, c)
	}
	return out
}

// F13Case: the witness of finding F13 (name tables are per plugin, so with nested -pluginprefix
// overrides a helper name minted by one plugin can equal a user-chosen name handled by another).
func F13Case() *Case {
	decl := "type T1 struct{ A int }\n\ntype T2 struct{ B string }\n\ntype S struct {\n\tX T1\n\tY T2\n}"
	ov := map[string]string{"hash": "h", "equal": "h_T"}
	return &Case{ID: "f13", Stream: "f13", Plugins: Plugins("derive", ov), GoderiveArgs: PrefixArgs("derive", ov),
		Types: []TypeSpec{
			{Go: "*S", Wire: "(p (nm 0 S (st)))", Decl: decl},
			{Go: "*T1", Wire: "(p (nm 0 T1 (st int)))", Decl: decl},
		},
		Files:    []FileSpec{{Name: "a.go", Calls: []CallSpec{Call("hash", "h", 0), Call("equal", "h_T", 1)}}},
		Variants: []Variant{{false, false}}, KeepDerived: true, OtherFile: "z_other.go"}
}

// ---------------------------------------------------------------- C11: types from same-named packages

// ImportedC11: argument types that are SPELLED alike but are different types: `User` of two imported
// packages that are both named model (t/store/model, t/wire/model) and a local `User`, by pointer and
// by value. All assignments of <= 2 equal calls to 3 names x these types, + random packages of 3..5
// calls, under the four flag combinations.
func ImportedC11(r *rand.Rand, n int) []*Case {
	extra := map[string]string{
		"store/model/model.go": "package model\n\ntype User struct {\n\tID   int\n\tName string\n}\n",
		"wire/model/model.go":  "package model\n\ntype User struct {\n\tID   int\n\tName string\n}\n",
	}
	simp, wimp := `smodel "t/store/model"`, `wmodel "t/wire/model"`
	local := "type User struct {\n\tID   int\n\tName string\n}"
	typs := []TypeSpec{
		{Go: "*smodel.User", Wire: "(p (nm 1 User (st int string)))", Import: simp},
		{Go: "*wmodel.User", Wire: "(p (nm 2 User (st int string)))", Import: wimp},
		{Go: "*User", Wire: "(p (nm 0 User (st int string)))", Decl: local},
		{Go: "smodel.User", Wire: "(nm 1 User (st int string))", Import: simp},
		{Go: "wmodel.User", Wire: "(nm 2 User (st int string))", Import: wimp},
	}
	plugins := Plugins("derive", nil)
	pfx := map[string]string{"equal": "deriveEqual", "hash": "deriveHash"}
	names := []string{"deriveEqual", "deriveEqual_", "deriveEqual_U"}
	var out []*Case
	emit := func(calls []CallSpec) {
		c := &Case{ID: fmt.Sprintf("i%d", len(out)), Stream: "imported", Types: typs, Plugins: plugins, Variants: AllVariants, Extra: extra}
		decorate(r, c, calls, pfx)
		out = append(out, c)
	}
	for n1 := range names {
		for t1 := range typs {
			emit([]CallSpec{Call("equal", names[n1], t1)})
			for n2 := range names {
				for t2 := range typs {
					emit([]CallSpec{Call("equal", names[n1], t1), Call("equal", names[n2], t2)})
				}
			}
		}
	}
	for i := 0; i < n; i++ {
		var calls []CallSpec
		for j := 0; j < 3+r.Intn(3); j++ {
			pl := []string{"equal", "equal", "hash"}[r.Intn(3)]
			nm := names[r.Intn(len(names))]
			if pl == "hash" {
				nm = []string{"deriveHash", "deriveHash_", "deriveHash_U"}[r.Intn(3)]
			}
			calls = append(calls, Call(pl, nm, r.Intn(len(typs))))
		}
		emit(calls)
	}
	return out
}

// ---------------------------------------------------------------- C12: unusual override values

var goKeywords = []string{"break", "case", "chan", "const", "continue", "default", "defer", "else", "fallthrough", "for",
	"func", "go", "goto", "if", "import", "interface", "map", "package", "range", "return", "select", "struct", "switch", "type", "var"}
var goPredeclared = []string{"len", "cap", "new", "make", "nil", "true", "false", "string", "int", "error", "any", "append",
	"copy", "close", "delete", "panic", "print", "min", "max", "clear"}

// weirdValue: override values of unusual shape. Since 60219e3 a helper is never named by a keyword or a
// predeclared identifier, so every class may meet (plugin, type) combinations that need helpers
// (`restricted` is kept for classes that must stay helper-free; none at present). A single-letter
// prefix can still coincide with a local of the emitted code (hash=h: known finding F49); such runs are
// generated and classified by the check, not hidden.
type weirdValue struct {
	v          string
	class      string
	restricted bool
}

func weirdValues() []weirdValue {
	var out []weirdValue
	for _, k := range goKeywords {
		out = append(out, weirdValue{k, "keyword", false})
	}
	for _, k := range goPredeclared {
		out = append(out, weirdValue{k, "predeclared", false})
	}
	for c := 'a'; c <= 'z'; c++ {
		out = append(out, weirdValue{string(c), "letter", false})
	}
	for _, k := range []string{"kipQz_", "mk2", "zed_9", "wob7_", "vax__"} {
		out = append(out, weirdValue{k, "tail", false})
	}
	for _, k := range []string{"π", "é", "πr", "éq", "世"} {
		out = append(out, weirdValue{k, "nonascii", false})
	}
	for _, k := range []string{"Eq", "Cmp", "Hsh", "Srt", "X"} {
		out = append(out, weirdValue{k, "upper", false})
	}
	// names under which the plugins import packages (c630945: reserved, so the bare prefix is not minted)
	for _, k := range ImportNames {
		out = append(out, weirdValue{k, "import", false})
	}
	return out
}

func longestHandler(pls []PluginSpec, name string) string {
	best, bl := "", -1
	for _, p := range pls {
		if strings.HasPrefix(name, p.Prefix) && len(p.Prefix) > bl {
			best, bl = p.Name, len(p.Prefix)
		}
	}
	return best
}

// WeirdC12: groups (default-named package, renamed package) whose -pluginprefix values are Go keywords,
// predeclared identifiers, single letters, end in `_` or a digit, are non-ASCII, start upper-case, or
// are another plugin's default prefix (swapped in pairs). Call names are prefix + non-empty suffix,
// so no call name is a keyword. Every value of weirdValues() is used at least once when n >= len.
func WeirdC12(r *rand.Rand, n int) []*Case {
	decl := "type S struct {\n\tA int\n\tB string\n}"
	typs := []TypeSpec{
		{Go: "*S", Wire: "(p (nm 0 S (st)))", Decl: decl},
		{Go: "[]int", Wire: "(sl int)", Decl: decl},
		{Go: "[]string", Wire: "(sl string)", Decl: decl},
		{Go: "map[string]int", Wire: "(m string int)", Decl: decl},
	}
	// (plugin, type) combinations without a helper named by a bare prefix / with such helpers
	flat := map[string][]int{"equal": {0, 1}, "deepcopy": {0}, "sort": {1, 2}, "keys": {3}, "set": {1, 2}}
	deep := map[string][]int{"compare": {0}, "hash": {0, 2}, "unique": {2}, "clone": {1, 0}}
	flatNames := []string{"equal", "deepcopy", "sort", "keys", "set"}
	deepNames := []string{"compare", "hash", "unique", "clone"}
	vals := weirdValues()
	swaps := [][2]string{{"equal", "compare"}, {"keys", "set"}, {"sort", "hash"}, {"deepcopy", "unique"}}
	def := map[string]string{}
	for _, d := range DefaultPlugins {
		def[d[0]] = d[1]
	}
	suffixes := []string{"Of", "X1", "Zed"}
	var out []*Case
	for g := 0; g < n; g++ {
		var ov map[string]string
		var used []string
		for try := 0; ; try++ {
			ov = map[string]string{}
			used = nil
			if g == 1 {
				// the witness of known finding F49: the helper `h` of the hash plugin is shadowed by a local
				ov["hash"] = "h"
				used = []string{"hash"}
			} else if g == 2 {
				// F86: hash=sort needs a helper; next to a deriveSort call the file imports package sort
				ov["hash"] = "sort"
				used = []string{"hash", "sort"}
			} else if g == 3 {
				// F86: compare=strings: the helper for the int field next to strings.Compare
				ov["compare"] = "strings"
				used = []string{"compare"}
			} else if g == 4 || g == 5 {
				// clone asks deepcopy for a helper; deepcopy's bare prefix is a builtin FUNCTION: `func copy(dst, src []int) { copy(dst, src) }`
				ov["clone"] = "clone"
				ov["deepcopy"] = []string{"copy", "append"}[g-4]
				used = []string{"clone"}
			} else if g%8 == 7 {
				// swapped defaults
				sw := swaps[r.Intn(len(swaps))]
				ov[sw[0]], ov[sw[1]] = def[sw[1]], def[sw[0]]
				used = []string{sw[0], sw[1]}
			} else {
				first := vals[(g+try)%len(vals)]
				k := 1 + r.Intn(3)
				seen := map[string]bool{}
				ws := []weirdValue{first}
				anyRestricted := first.restricted
				for i := 1; i < k; i++ {
					w := vals[r.Intn(len(vals))]
					ws = append(ws, w)
					anyRestricted = anyRestricted || w.restricted
				}
				for _, w := range ws {
					var p string
					// helpers are minted across plugins (unique -> keys, set; clone -> deepcopy): with one
					// restricted prefix in the map, the whole package stays helper-free
					if anyRestricted || r.Intn(2) == 0 {
						p = flatNames[r.Intn(len(flatNames))]
					} else {
						p = deepNames[r.Intn(len(deepNames))]
					}
					if seen[p] || seen["v:"+w.v] {
						continue
					}
					seen[p], seen["v:"+w.v] = true, true
					ov[p] = w.v
					used = append(used, p)
				}
			}
			// keep the F13 class (P and P_… together) and dispatch capture out of this stream
			pls := Plugins("derive", ov)
			ok := true
			for _, a := range pls {
				for _, b := range pls {
					if a.Name != b.Name && strings.HasPrefix(b.Prefix, a.Prefix+"_") {
						ok = false
					}
				}
			}
			for _, p := range used {
				for _, sfx := range suffixes {
					if longestHandler(pls, ov[p]+sfx) != p {
						ok = false
					}
				}
			}
			if ok || try > 50 {
				break
			}
		}
		sort.Strings(used)
		type pc struct {
			plugin, suffix string
			typ            int
		}
		var pcs []pc
		for _, p := range used {
			ts := flat[p]
			if ts == nil {
				ts = deep[p]
			}
			ty := ts[r.Intn(len(ts))]
			if g >= 1 && g <= 5 {
				ty = ts[0]
			}
			pcs = append(pcs, pc{p, suffixes[r.Intn(len(suffixes))], ty})
		}
		mk := func(id, rename string, o map[string]string) *Case {
			pl := Plugins("derive", o)
			pre := map[string]string{}
			for _, x := range pl {
				pre[x.Name] = x.Prefix
			}
			calls := make([]CallSpec, len(pcs))
			for i, x := range pcs {
				calls[i] = Call(x.plugin, pre[x.plugin]+x.suffix, x.typ)
			}
			return &Case{ID: id, Stream: "c12", Types: typs, Plugins: pl, GoderiveArgs: PrefixArgs("derive", o),
				Variants: []Variant{{false, false}}, KeepDerived: true, Group: fmt.Sprintf("w%d", g), Rename: rename,
				Files: []FileSpec{{Name: "a.go", Calls: calls}}}
		}
		out = append(out, mk(fmt.Sprintf("w%d-default", g), "default", nil))
		out = append(out, mk(fmt.Sprintf("w%d-weird", g), "plugin-weird", ov))
	}
	return out
}

// ---------------------------------------------------------------- C12: several passes, several packages

// MultiC12: groups (default, nested override in both name orders) of invocations over TWO packages
// (goderive ./p ./q) whose first package contains nested derive calls (OUTER(deriveKeys…(m), …): the
// argument type of OUTER is only known after a first generation pass, so newPackage runs twice). Under
// `A=pick, B=pickB…` (and the mirrored map) every call must be handled by the plugin with the longest
// matching prefix in EVERY pass and in EVERY package of the invocation.
func MultiC12(r *rand.Rand, n int) []*Case {
	typs := []TypeSpec{
		{Go: "[]int", Wire: "(sl int)"},
		{Go: "map[string]int", Wire: "(m string int)"},
	}
	pool := []string{"max", "min", "sort", "set", "unique", "hash"}
	word := map[string]string{"max": "Max", "min": "Min", "sort": "Sort", "set": "Set", "unique": "Uniq", "hash": "Hash"}
	bases := []string{"pick", "gen", "zed"}
	var out []*Case
	for g := 0; g < n; g++ {
		a, b := "max", "min"
		if g > 0 {
			perm := r.Perm(len(pool))
			a, b = pool[perm[0]], pool[perm[1]]
		}
		base := bases[g%len(bases)]
		sfx := []string{"", "Of", "2"}
		s1, s2 := sfx[r.Intn(3)], sfx[r.Intn(3)]
		mk := func(id, rename string, ov map[string]string) *Case {
			pl := Plugins("derive", ov)
			pre := map[string]string{}
			for _, x := range pl {
				pre[x.Name] = x.Prefix
			}
			nested := func(p, s string) CallSpec {
				c := Call(p, pre[p]+s, 1)
				c.Arity = 1
				c.Inner = pre["keys"] + "Of"
				return c
			}
			simple := func(p, s string) CallSpec {
				c := Call(p, pre[p]+s, 0)
				c.Arity = 1
				return c
			}
			return &Case{ID: id, Stream: "c12", Types: typs, Plugins: pl, GoderiveArgs: PrefixArgs("derive", ov),
				Variants: []Variant{{false, false}}, KeepDerived: true, NoModel: true, Group: fmt.Sprintf("m%d", g), Rename: rename,
				Files: []FileSpec{{Name: "a.go", Calls: []CallSpec{simple(a, s1), simple(b, s2), nested(b, "N"), nested(a, "N2")}}},
				Pkg2:  []FileSpec{{Name: "a.go", Calls: []CallSpec{simple(b, "Q"), simple(a, "Q"), nested(a, "R")}}}}
		}
		out = append(out, mk(fmt.Sprintf("m%d-default", g), "default", nil))
		out = append(out, mk(fmt.Sprintf("m%d-ab", g), "plugin-nested", map[string]string{a: base, b: base + word[b]}))
		out = append(out, mk(fmt.Sprintf("m%d-ba", g), "plugin-nested", map[string]string{b: base, a: base + word[a]}))
	}
	return out
}

// ---------------------------------------------------------------- C11: calls that wait for a type

// PendingC11 (7ac80cc): a derive call whose argument is itself a derive call has no argument type in the
// first pass; its NAME is reserved for that pass, so that no helper another plugin asks for (and no
// -autoname rename) takes it. The waiting calls here are named by the BARE prefix — the first name
// newName tries — of the plugin that deriveUnique / deriveHash ask for helpers. No clash: every flag
// combination must succeed and the package must type-check.
func PendingC11() []*Case {
	decl := "type S struct {\n\tA string\n}"
	typs := []TypeSpec{
		{Go: "[]string", Wire: "(sl string)", Decl: decl},
		{Go: "map[string]int", Wire: "(m string int)", Decl: decl},
		{Go: "map[int]string", Wire: "(m int string)", Decl: decl},
		{Go: "*S", Wire: "(p (nm 0 S (st string)))", Decl: decl},
	}
	plugins := Plugins("derive", nil)
	nested := func(plugin, name string, typ int) CallSpec {
		c := Call(plugin, name, typ)
		c.Arity = 1
		c.Inner = "deriveKeysOf"
		return c
	}
	uniq := Call("unique", "deriveUnique", 0)
	hash := Call("hash", "deriveHashOf", 3)
	var out []*Case
	add := func(calls ...CallSpec) {
		for split := 0; split < 2; split++ {
			c := &Case{ID: fmt.Sprintf("p%d", len(out)), Stream: "pending", Types: typs, Plugins: plugins, Variants: AllVariants,
				NoModel: true, OtherFile: "z_other.go"}
			if split == 1 && len(calls) > 1 {
				c.Files = []FileSpec{{Name: "a.go", Calls: calls[:1]}, {Name: "b.go", Calls: calls[1:]}}
			} else {
				c.Files = []FileSpec{{Name: "a.go", Calls: calls}}
			}
			out = append(out, c)
		}
	}
	for _, mt := range []int{1, 2} {
		add(uniq, nested("set", "deriveSet", mt))
		add(nested("set", "deriveSet", mt), uniq)
		add(hash, nested("hash", "deriveHash", mt))
		add(nested("hash", "deriveHash", mt), hash)
		add(uniq, hash, nested("set", "deriveSet", mt), nested("hash", "deriveHash", mt))
		add(uniq, nested("sort", "deriveSort", mt))
	}
	// the witness of F78: three levels deriveKeys(deriveSet(deriveFmap(…))) next to deriveUnique, whose helpers
	// are deriveKeys / deriveSet for OTHER types; the waiting calls bear the bare prefixes
	chain := func(elem, res, conv string) string {
		return fmt.Sprintf("package p\n\nfunc Chain(xs []%s, conv func(%s) %s) []%s {\n\tys := deriveFmap(conv, xs)\n\ts := deriveSet(ys)\n\treturn deriveKeys(s)\n}\n", elem, elem, res, res)
	}
	for i, v := range [][2]string{{"int", "string"}, {"string", "int"}} {
		ut := []TypeSpec{{Go: "[]" + v[0], Wire: "(sl " + v[0] + ")"}}
		for _, fname := range []string{"0_chain.go", "w_chain.go"} {
			c := &Case{ID: fmt.Sprintf("pc%d%s", i, fname[:1]), Stream: "pending", Types: ut, Plugins: plugins, Variants: AllVariants,
				NoModel: true, OtherFile: "z_other.go", Files: []FileSpec{{Name: "a.go", Calls: []CallSpec{Call("unique", "deriveUnique", 0)}}},
				Extra: map[string]string{"p/" + fname: chain(v[0], v[1], "")}}
			out = append(out, c)
		}
	}
	return out
}

// AutonameAcrossPasses (62365e3): deriveEqual(a, a); deriveEqual(b, b); deriveEqual(deriveClone(b), deriveClone(b)):
// -autoname renames the second call in the first pass; the third call gets its type in the second pass and must
// be recognised as that call again. Oracle on the two plain calls: a conflict, no duplicate.
func AutonameAcrossPasses() []*Case {
	decl := "type A struct{ X int }\n\ntype B struct{ Y string }"
	typs := []TypeSpec{{Go: "*A", Wire: "(p (nm 0 A (st int)))", Decl: decl}, {Go: "*B", Wire: "(p (nm 0 B (st string)))", Decl: decl}}
	raw := "package p\n\nfunc Third(b *B) bool { return deriveEqual(deriveClone(b), deriveClone(b)) }\n"
	var out []*Case
	// the file of the waiting call sorts before (67eda32: the renamed call is met first in the later pass) or
	// after the file of the plain calls
	for i, fname := range []string{"0_third.go", "w_third.go"} {
		out = append(out, &Case{ID: fmt.Sprintf("pa%d", i), Stream: "pending", Types: typs, Plugins: Plugins("derive", nil),
			Variants: AllVariants, NoModel: true, OtherFile: "z_other.go",
			Files: []FileSpec{{Name: "a.go", Calls: []CallSpec{Call("equal", "deriveEqual", 0), Call("equal", "deriveEqual", 1)}}},
			Extra: map[string]string{"p/" + fname: raw}})
	}
	return out
}

// ChanC11 (4422487): channel types differing in direction: `chan int` can be passed for `<-chan int`, so the
// function for the latter serves the former, but one NAME used with both type lists is a conflict whatever
// the order. All sequences of <= 3 deriveTuple calls over 2 names x {chan int, <-chan int, chan<- int}.
func ChanC11(r *rand.Rand) []*Case {
	typs := []TypeSpec{
		{Go: "chan int", Wire: "(ch int)"},
		{Go: "<-chan int", Wire: "(chr int)"},
		{Go: "chan<- int", Wire: "(chs int)"},
	}
	plugins := Plugins("derive", nil)
	names := []string{"deriveTuple", "deriveTuple_"}
	var out []*Case
	var rec func(cur []CallSpec)
	rec = func(cur []CallSpec) {
		if len(cur) > 0 {
			c := &Case{ID: fmt.Sprintf("ch%d", len(out)), Stream: "chan", Types: typs, Plugins: plugins, Variants: AllVariants,
				OtherFile: "z_other.go", Files: []FileSpec{{Name: "a.go", Calls: append([]CallSpec(nil), cur...)}}}
			out = append(out, c)
		}
		if len(cur) == 3 {
			return
		}
		for _, n := range names {
			for t := range typs {
				cl := Call("tuple", n, t)
				cl.Arity = 1
				rec(append(append([]CallSpec(nil), cur...), cl))
			}
		}
	}
	rec(nil)
	return out
}

// StaleC11: an old derived.gen.go already declares deriveEqual for *A; the package now also uses the name
// for *B in a call whose arguments are only typed after a first pass (deriveEqual(deriveClone(b), …)).
// One name, two type lists: a conflict whatever the old file says.
func StaleC11() []*Case {
	decl := "type A struct{ X int }\n\ntype B struct{ Y string }"
	typs := []TypeSpec{{Go: "*A", Wire: "(p (nm 0 A (st int)))", Decl: decl}, {Go: "*B", Wire: "(p (nm 0 B (st string)))", Decl: decl}}
	stale := "// Code generated by goderive DO NOT EDIT.\n\npackage p\n\n// deriveEqual returns whether this and that are equal.\nfunc deriveEqual(this, that *A) bool {\n\treturn (this == nil && that == nil) ||\n\t\tthis != nil && that != nil &&\n\t\t\tthis.X == that.X\n}\n"
	raw := "package p\n\nfunc Third(b *B) bool { return deriveEqual(deriveClone(b), deriveClone(b)) }\n"
	var out []*Case
	for i, fname := range []string{"0_third.go", "w_third.go"} {
		for j, withStale := range []bool{true, false} {
			extra := map[string]string{"p/" + fname: raw}
			if withStale {
				extra["p/derived.gen.go"] = stale
			}
			out = append(out, &Case{ID: fmt.Sprintf("st%d%d", i, j), Stream: "pending", Types: typs, Plugins: Plugins("derive", nil),
				Variants: AllVariants, NoModel: true, OtherFile: "z_other.go",
				Files:      []FileSpec{{Name: "a.go", Calls: []CallSpec{Call("equal", "deriveEqual", 0)}}},
				ExtraCalls: []CallSpec{Call("equal", "deriveEqual", 1)}, Extra: extra})
		}
	}
	return out
}

// TwoPackagesC11: goderive ./p ./q in one invocation: p has a conflict that -autoname resolves by renaming
// deriveEqual to deriveEqual_; q's only clash is the duplicate pair (deriveEqual_, deriveEqual) for one type
// list, in both orders — or q is clash-free. The record of renames of p must not make q's duplicate pass.
func TwoPackagesC11() []*Case {
	typs := C11Types
	plugins := Plugins("derive", nil)
	var out []*Case
	confl := []CallSpec{Call("equal", "deriveEqual", 0), Call("equal", "deriveEqual", 1)}
	plain := []CallSpec{Call("equal", "deriveEqual", 0)}
	for _, pcalls := range [][]CallSpec{confl, plain} {
		for k := 0; k < 3; k++ {
			for _, q := range [][]CallSpec{
				{Call("equal", "deriveEqual_", k), Call("equal", "deriveEqual", k)},
				{Call("equal", "deriveEqual", k), Call("equal", "deriveEqual_", k)},
				{Call("equal", "deriveEqual_", k)},
			} {
				out = append(out, &Case{ID: fmt.Sprintf("tp%d", len(out)), Stream: "twopkg", Types: typs, Plugins: plugins,
					Variants: AllVariants, NoModel: true, OtherFile: "z_other.go",
					Files: []FileSpec{{Name: "a.go", Calls: pcalls}}, Pkg2: []FileSpec{{Name: "a.go", Calls: q}}})
			}
		}
	}
	return out
}

// TagsC11 (struct tags are part of a type): all sequences of <= 2 equal calls over 2 names x
// {[]struct{ID int}, []struct{ID int `json:"id"`}, struct{…} with and without the tag}.
func TagsC11(r *rand.Rand) []*Case {
	typs := []TypeSpec{
		{Go: "[]struct{ ID int }", Wire: "(sl (st int))"},
		{Go: "[]struct {\n\tID int `json:\"id\"`\n}", Wire: "(sl (stt id int))"},
		{Go: "struct{ ID int }", Wire: "(st int)"},
		{Go: "struct {\n\tID int `json:\"id\"`\n}", Wire: "(stt id int)"},
	}
	return smallExhaustive(r, "tags", "tg", typs, "equal", 2, []string{"deriveEqual", "deriveEqual_"}, 2)
}

// IfaceC11: interface types next to types that implement them (a concrete type is NOT served by the
// function for an interface it implements: two functions, nothing merged under -dedup): all sequences of
// <= 2 one-argument deriveTuple calls over 2 names x {error, *MyErr, Str, *T1, interface{}, int}.
func IfaceC11(r *rand.Rand) []*Case {
	decl := "type MyErr struct{ M string }\n\nfunc (e *MyErr) Error() string { return e.M }\n\ntype Str interface{ String() string }\n\ntype T1 struct{ N int }\n\nfunc (t *T1) String() string { return \"t\" }"
	typs := []TypeSpec{
		{Go: "error", Wire: "error", Decl: decl},
		{Go: "*MyErr", Wire: "(p (nmm 0 MyErr (st string) Error))", Decl: decl},
		{Go: "Str", Wire: "(nm 0 Str (if String))", Decl: decl},
		{Go: "*T1", Wire: "(p (nmm 0 T1 (st int) String))", Decl: decl},
		{Go: "interface{}", Wire: "iface", Decl: decl},
		{Go: "int", Wire: "int", Decl: decl},
	}
	return smallExhaustive(r, "iface", "if", typs, "tuple", 1, []string{"deriveTuple", "deriveTuple_"}, 2)
}

func smallExhaustive(r *rand.Rand, stream, idp string, typs []TypeSpec, plugin string, ar int, names []string, k int) []*Case {
	plugins := Plugins("derive", nil)
	pfx := map[string]string{}
	for _, p := range plugins {
		pfx[p.Name] = p.Prefix
	}
	var out []*Case
	var rec func(cur []CallSpec)
	rec = func(cur []CallSpec) {
		if len(cur) > 0 {
			c := &Case{ID: fmt.Sprintf("%s%d", idp, len(out)), Stream: stream, Types: typs, Plugins: plugins, Variants: AllVariants}
			decorate(r, c, append([]CallSpec(nil), cur...), map[string]string{plugin: pfx[plugin]})
			out = append(out, c)
		}
		if len(cur) == k {
			return
		}
		for _, n := range names {
			for t := range typs {
				cl := Call(plugin, n, t)
				cl.Arity = ar
				rec(append(append([]CallSpec(nil), cur...), cl))
			}
		}
	}
	rec(nil)
	return out
}

// HandWrittenOverStaleC11: an old derived.gen.go still declares deriveEqualH, which the user has since written
// by hand in a file that sorts after derived.gen.go (the type checker keeps the declaration it meets first).
// The call of the hand-written function is not a derive call: no clash, nothing to rename, and the
// hand-written file stays as it is — also next to a real derive call of the same plugin and argument types.
func HandWrittenOverStaleC11() []*Case {
	decl := "type A struct{ X int }"
	typs := []TypeSpec{{Go: "*A", Wire: "(p (nm 0 A (st int)))", Decl: decl}}
	eq := func(name string) string {
		return "// " + name + " returns whether this and that are equal.\nfunc " + name + "(this, that *A) bool {\n\treturn (this == nil && that == nil) ||\n\t\tthis != nil && that != nil &&\n\t\t\tthis.X == that.X\n}\n"
	}
	stale := "// Code generated by goderive DO NOT EDIT.\n\npackage p\n\n" + eq("deriveEqual") + "\n" + eq("deriveEqualH")
	hand := "package p\n\nfunc deriveEqualH(a, b *A) bool { return a == b }\n\nfunc UseH(a, b *A) bool { return deriveEqualH(a, b) }\n"
	var out []*Case
	for i, fname := range []string{"util.go", "m_hand.go", "a0_hand.go"} { // the last one sorts BEFORE derived.gen.go
		for j, withCall := range []bool{true, false} {
			c := &Case{ID: fmt.Sprintf("hw%d%d", i, j), Stream: "pending", Types: typs, Plugins: Plugins("derive", nil),
				Variants: AllVariants, NoModel: true, ExtraFixed: true, OtherFile: "z_other.go",
				Extra: map[string]string{"p/derived.gen.go": stale, "p/" + fname: hand}}
			if withCall {
				c.Files = []FileSpec{{Name: "a.go", Calls: []CallSpec{Call("equal", "deriveEqual", 0)}}}
			} else {
				// the type declaration still has to live somewhere: a wrapper of another plugin
				c.Files = []FileSpec{{Name: "a.go", Calls: []CallSpec{Call("hash", "deriveHash", 0)}}}
			}
			out = append(out, c)
		}
	}
	return out
}

// FixedC12: two fixed groups (default-named twin, renamed package).
//   nA  equal=eq, compare=eq_ with both plugins needing a helper for *Inner and the user calling the bare `eq`:
//       equal's made-up names (eq_, …) must keep clear of the names compare registers and makes up, and vice
//       versa (names registered by one plugin are reserved for all: cd6a573).
//   nB  compare=order in a package that imports t/order/v2, whose package NAME is order: the helper compare makes up
//       must keep clear of the import name as the type checker sees it, not of the last path element.
func FixedC12() []*Case {
	decl := "type Inner struct{ N int }\n\ntype Outer struct {\n\tName string\n\tIn   *Inner\n}"
	typs := []TypeSpec{{Go: "*Outer", Wire: "(p (nm 0 Outer (st)))", Decl: decl}}
	mk := func(group, id, rename string, ov map[string]string, calls func(pre map[string]string) []CallSpec, extra map[string]string) *Case {
		pl := Plugins("derive", ov)
		pre := map[string]string{}
		for _, x := range pl {
			pre[x.Name] = x.Prefix
		}
		return &Case{ID: id, Stream: "c12", Types: typs, Plugins: pl, GoderiveArgs: PrefixArgs("derive", ov),
			Variants: []Variant{{false, false}}, KeepDerived: true, NoModel: true, Group: group, Rename: rename,
			Files: []FileSpec{{Name: "a.go", Calls: calls(pre)}}, Extra: extra}
	}
	var out []*Case
	callsA := func(pre map[string]string) []CallSpec {
		return []CallSpec{Call("equal", pre["equal"], 0), Call("compare", pre["compare"]+"Outer", 0)}
	}
	out = append(out, mk("nA", "nA-default", "default", nil, callsA, nil))
	out = append(out, mk("nA", "nA-renamed", "plugin-nested", map[string]string{"equal": "eq", "compare": "eq_"}, callsA, nil))
	callsB := func(pre map[string]string) []CallSpec {
		return []CallSpec{Call("compare", pre["compare"]+"Outer", 0)}
	}
	extraB := map[string]string{
		"order/v2/v2.go": "// Package order: its import path ends in v2, its name is order.\npackage order\n\ntype Direction int\n\nconst Asc Direction = 1\n",
		"p/use.go":       "package p\n\nimport \"t/order/v2\"\n\nvar Dir = order.Asc\n",
	}
	out = append(out, mk("nB", "nB-default", "default", nil, callsB, extraB))
	out = append(out, mk("nB", "nB-renamed", "plugin-weird", map[string]string{"compare": "order"}, callsB, extraB))
	return out
}

// UntypedC11: one-argument deriveTuple calls whose argument is a typed float64 / int / int32 / uint8 value or an
// untyped constant (7, 1<<60+1, 1.5, 'x'): an untyped constant counts with its DEFAULT type (int, float64,
// int32), it is not served by the function registered for float64 although it could be assigned to it.
// All sequences of <= 2 calls over 2 names.
func UntypedC11(r *rand.Rand) []*Case {
	typs := []TypeSpec{{Go: "float64", Wire: "f64"}, {Go: "int", Wire: "int"}, {Go: "int32", Wire: "i32"}, {Go: "uint8", Wire: "u8"}}
	type arg struct {
		typ int
		lit string
	}
	args := []arg{{0, ""}, {1, ""}, {2, ""}, {3, ""}, {1, "7"}, {1, "1<<60 + 1"}, {0, "1.5"}, {2, "'x'"}}
	plugins := Plugins("derive", nil)
	names := []string{"deriveTuple", "deriveTuple_"}
	var out []*Case
	var rec func(cur []CallSpec)
	rec = func(cur []CallSpec) {
		if len(cur) > 0 {
			c := &Case{ID: fmt.Sprintf("ut%d", len(out)), Stream: "untyped", Types: typs, Plugins: plugins, Variants: AllVariants,
				OtherFile: "z_other.go", Files: []FileSpec{{Name: "a.go", Calls: append([]CallSpec(nil), cur...)}}}
			out = append(out, c)
		}
		if len(cur) == 2 {
			return
		}
		for _, n := range names {
			for _, a := range args {
				cl := Call("tuple", n, a.typ)
				cl.Arity = 1
				cl.Const = a.lit
				rec(append(append([]CallSpec(nil), cur...), cl))
			}
		}
	}
	rec(nil)
	return out
}

// TestFileC11: derive calls in an in-package _test.go file next to a call that waits a pass
// (deriveSort(deriveKeys(m))): the test file's deriveEqual([]string) conflicts with a.go's deriveEqual(int); every
// pass must see the test file, or the last derived.gen.go lacks the renamed function.
func TestFileC11() []*Case {
	typs := []TypeSpec{{Go: "int", Wire: "int"}, {Go: "[]string", Wire: "(sl string)"}}
	wait := "package p\n\nfunc Names(m map[string]int) []string { return deriveSort(deriveKeys(m)) }\n"
	test := "package p\n\nfunc sameNames(a, b []string) bool { return deriveEqual(a, b) }\n"
	var out []*Case
	for i, tf := range []string{"a_lib_test.go", "z_lib_test.go"} {
		out = append(out, &Case{ID: fmt.Sprintf("tf%d", i), Stream: "pending", Types: typs, Plugins: Plugins("derive", nil),
			Variants: AllVariants, NoModel: true, OtherFile: "z_other.go",
			Files:      []FileSpec{{Name: "lib.go", Calls: []CallSpec{Call("equal", "deriveEqual", 0)}}},
			ExtraCalls: []CallSpec{Call("equal", "deriveEqual", 1)},
			Extra:      map[string]string{"p/names.go": wait, "p/" + tf: test}})
	}
	return out
}

// MethodsC11 (2c333b7): a declared struct type whose methods are all on the pointer, by value, next to its unnamed
// twin: not served by each other's function. All sequences of <= 2 deriveEqual calls over 2 names.
func MethodsC11(r *rand.Rand) []*Case {
	decl := "type Key struct{ ID int }\n\nfunc (k *Key) Equal(o *Key) bool { return k.ID == o.ID }"
	typs := []TypeSpec{
		{Go: "Key", Wire: "(nmp 0 Key (st int) Equal)", Decl: decl},
		{Go: "struct{ ID int }", Wire: "(st int)", Decl: decl},
		{Go: "*Key", Wire: "(p (nmp 0 Key (st int) Equal))", Decl: decl},
	}
	return smallExhaustive(r, "methods", "me", typs, "equal", 2, []string{"deriveEqual", "deriveEqual_"}, 2)
}

// DotImportC12: package q dot-imports package p; both are generated by one invocation, p first, with the exported
// global prefix Derive (and with the default one): the helper that contains asks equal for in q must keep clear of
// p's exported DeriveEqual, which the dot import puts into q's file scope. The module must build.
func DotImportC12() []*Case {
	decl := "type T struct {\n\tName string\n\tTags []string\n}"
	typs := []TypeSpec{{Go: "*T", Wire: "(p (nm 0 T (st)))", Decl: decl}}
	var out []*Case
	for _, pfx := range []string{"derive", "Derive"} {
		q := "package q\n\nimport . \"t/p\"\n\ntype V struct{ X int }\n\ntype U struct {\n\tName string\n\tIn   *V\n}\n\n" +
			"func Has(us []*U, u *U) bool { return " + pfx + "Contains(us, u) }\n\nfunc Same2(a, b *T) bool { return Wrap0(a, b) }\n"
		c := &Case{ID: "dot-" + pfx, Stream: "c12", Types: typs, Plugins: Plugins(pfx, nil), GoderiveArgs: PrefixArgs(pfx, nil),
			Variants: []Variant{{false, false}}, KeepDerived: true, NoModel: true, Group: "nD", Rename: "global:" + pfx,
			Files: []FileSpec{{Name: "a.go", Calls: []CallSpec{Call("equal", pfx+"Equal", 0)}}},
			Extra: map[string]string{"q/main.go": q}, ExtraPkgs: []string{"q"}, GoBuild: true, PreRunP: true}
		if pfx == "derive" {
			c.Rename = "default"
		}
		out = append(out, c)
	}
	return out
}
