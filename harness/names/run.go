package names

import (
	"bytes"
	"context"
	"fmt"
	"go/ast"
	"go/importer"
	"go/parser"
	"go/printer"
	"go/token"
	"go/types"
	"os"
	"os/exec"
	"path/filepath"
	"regexp"
	"sort"
	"strings"
	"time"
)

// Func is one function of derived.gen.go.
type Func struct {
	Name   string   `json:"name"`
	Params []string `json:"params"`
	Result string   `json:"result"`
}

// Obs is what was observed for one (case, variant) on the real binary.
type Obs struct {
	ID        string     `json:"id"`
	Variant   string     `json:"variant"`
	RC        int        `json:"rc"`
	Timeout   bool       `json:"timeout,omitempty"`
	Class     string     `json:"class"`            // ok | conflict | dup | rejected | other
	Plugin    string     `json:"plugin,omitempty"` // plugin named in "Add Error: <plugin>:"
	Stderr    string     `json:"stderr,omitempty"`
	Names     [][]string `json:"names,omitempty"`   // per file (alphabetical), callee identifier of every wrapper in source order
	Changed   []bool     `json:"changed,omitempty"` // per file: bytes differ from what was written
	OtherCh   bool       `json:"other_changed,omitempty"`
	ExtraCh   []string   `json:"extra_changed,omitempty"` // raw Extra files of package p (other than derived.gen.go) whose bytes changed
	TypeErr   string     `json:"type_error,omitempty"` // "" = the package type-checks
	CallsBad  []string   `json:"calls_bad,omitempty"`  // call sites whose callee is not a derived function for exactly the argument types
	Funcs     []Func     `json:"funcs,omitempty"`
	Derived   string     `json:"derived,omitempty"`
	Canon     []string   `json:"canon,omitempty"`
	FailedSrc bool       `json:"failed_src_changed,omitempty"` // a failing run modified a user file
}

var addErrRe = regexp.MustCompile(`Add Error: ([a-z]+): `)

func classify(stderr string) (class, plugin string) {
	if m := addErrRe.FindStringSubmatch(stderr); m != nil {
		plugin = m[1]
	}
	switch {
	case strings.Contains(stderr, "conflicting function names"):
		return "conflict", plugin
	case strings.Contains(stderr, "ambigious function names"):
		return "dup", plugin
	case strings.Contains(stderr, "Add Error:"):
		return "rejected", plugin
	case strings.Contains(stderr, "unreachable: function names cannot be changed"):
		return "panic", plugin
	}
	return "other", plugin
}

// RunCase materialises the case in dir (which must not exist), runs goderive, reads the result back.
func RunCase(goderive string, c *Case, v Variant, dir string) (*Obs, error) {
	obs := &Obs{ID: c.ID, Variant: v.String()}
	pdir := filepath.Join(dir, "p")
	if err := os.MkdirAll(pdir, 0o755); err != nil {
		return nil, err
	}
	if err := os.WriteFile(filepath.Join(dir, "go.mod"), []byte("module t\n\ngo 1.24\n"), 0o644); err != nil {
		return nil, err
	}
	for rel, content := range c.Extra {
		fp := filepath.Join(dir, rel)
		if err := os.MkdirAll(filepath.Dir(fp), 0o755); err != nil {
			return nil, err
		}
		if err := os.WriteFile(fp, []byte(content), 0o644); err != nil {
			return nil, err
		}
	}
	srcs := c.Sources()
	for n, s := range srcs {
		if err := os.WriteFile(filepath.Join(pdir, n), []byte(s), 0o644); err != nil {
			return nil, err
		}
	}
	srcs2 := c.Sources2()
	if len(srcs2) > 0 {
		if err := os.MkdirAll(filepath.Join(dir, "q"), 0o755); err != nil {
			return nil, err
		}
		for n, s := range srcs2 {
			if err := os.WriteFile(filepath.Join(dir, "q", n), []byte(s), 0o644); err != nil {
				return nil, err
			}
		}
	}
	args := append(append([]string{}, c.GoderiveArgs...), v.Args()...)
	args = append(args, "./p")
	if len(srcs2) > 0 {
		args = append(args, "./q")
	}
	for _, d := range c.ExtraPkgs {
		args = append(args, "./"+d)
	}
	if c.PreRunP {
		pre := exec.Command(goderive, append(append(append([]string{}, c.GoderiveArgs...), v.Args()...), "./p")...)
		pre.Dir = dir
		pre.Env = append(os.Environ(), "GOFLAGS=-mod=mod", "GOPROXY=off", "GOMEMLIMIT=2GiB")
		_ = pre.Run()
	}
	ctx, cancel := context.WithTimeout(context.Background(), 60*time.Second)
	defer cancel()
	cmd := exec.CommandContext(ctx, goderive, args...)
	cmd.Dir = dir
	cmd.Env = append(os.Environ(), "GOFLAGS=-mod=mod", "GOPROXY=off", "GOMEMLIMIT=2GiB")
	var stderr bytes.Buffer
	cmd.Stderr = &stderr
	cmd.Stdout = &stderr
	err := cmd.Run()
	if ctx.Err() != nil {
		obs.Timeout = true
		obs.RC = -1
		obs.Class = "timeout"
		return obs, nil
	}
	if err != nil {
		if ee, ok := err.(*exec.ExitError); ok {
			obs.RC = ee.ExitCode()
		} else {
			return nil, err
		}
	}
	se := stderr.String()
	// file contents after the run
	files := append([]FileSpec(nil), c.Files...)
	sort.SliceStable(files, func(i, j int) bool { return files[i].Name < files[j].Name })
	after := map[string]string{}
	for n := range srcs {
		b, err := os.ReadFile(filepath.Join(pdir, n))
		if err != nil {
			return nil, err
		}
		after[n] = string(b)
	}
	if obs.RC != 0 {
		obs.Class, obs.Plugin = classify(se)
		if len(se) > 600 {
			se = se[:600]
		}
		obs.Stderr = se
		for n := range srcs {
			if after[n] != srcs[n] {
				obs.FailedSrc = true
			}
		}
		return obs, nil
	}
	obs.Class = "ok"
	for _, f := range files {
		obs.Changed = append(obs.Changed, after[f.Name] != srcs[f.Name])
	}
	if len(c.Reserved) > 0 {
		obs.OtherCh = after[c.OtherFile] != srcs[c.OtherFile]
	}
	for rel, content := range c.Extra {
		if filepath.Dir(rel) == "p" && filepath.Base(rel) != "derived.gen.go" {
			if b, err := os.ReadFile(filepath.Join(dir, rel)); err != nil || string(b) != content {
				obs.ExtraCh = append(obs.ExtraCh, rel)
			}
		}
	}
	readBack(obs, c, files, pdir)
	if len(srcs2) > 0 {
		readBack2(obs, c, filepath.Join(dir, "q"))
	}
	if c.GoBuild && obs.TypeErr == "" {
		bctx, bcancel := context.WithTimeout(context.Background(), 120*time.Second)
		defer bcancel()
		b := exec.CommandContext(bctx, "go", "build", "./...")
		b.Dir = dir
		b.Env = append(os.Environ(), "GOFLAGS=-mod=mod", "GOPROXY=off")
		if outb, err := b.CombinedOutput(); err != nil {
			msg := string(outb)
			if len(msg) > 400 {
				msg = msg[:400]
			}
			obs.TypeErr = "go build ./...: " + msg
		}
	}
	return obs, nil
}

// readBack parses and type-checks the package after a successful run.
func readBack(obs *Obs, c *Case, files []FileSpec, pdir string) {
	fset := token.NewFileSet()
	var asts []*ast.File
	byName := map[string]*ast.File{}
	ents, _ := os.ReadDir(pdir)
	for _, e := range ents {
		if !strings.HasSuffix(e.Name(), ".go") {
			continue
		}
		f, err := parser.ParseFile(fset, filepath.Join(pdir, e.Name()), nil, parser.ParseComments)
		if err != nil {
			obs.TypeErr = "parse: " + err.Error()
			return
		}
		asts = append(asts, f)
		byName[e.Name()] = f
	}
	info := &types.Info{Uses: map[*ast.Ident]types.Object{}, Types: map[ast.Expr]types.TypeAndValue{}}
	var firstErr error
	// module-local imported packages (Case.Extra) are parsed and checked here; everything else from source
	local := localImporter{pkgs: map[string]*types.Package{}, fallback: importer.ForCompiler(fset, "source", nil)}
	extraDirs := map[string]bool{}
	for rel := range c.Extra {
		extraDirs[filepath.Dir(rel)] = true
	}
	for d := range extraDirs {
		var fs []*ast.File
		ents, _ := os.ReadDir(filepath.Join(filepath.Dir(pdir), d))
		for _, e := range ents {
			if strings.HasSuffix(e.Name(), ".go") {
				if f, err := parser.ParseFile(fset, filepath.Join(filepath.Dir(pdir), d, e.Name()), nil, 0); err == nil {
					fs = append(fs, f)
				}
			}
		}
		if p, err := (&types.Config{}).Check("t/"+filepath.ToSlash(d), fset, fs, nil); err == nil {
			local.pkgs["t/"+filepath.ToSlash(d)] = p
		}
	}
	conf := types.Config{Importer: local, Error: func(err error) {
		if firstErr == nil {
			firstErr = err
		}
	}}
	_, _ = conf.Check("t/p", fset, asts, info)
	if firstErr != nil {
		obs.TypeErr = firstErr.Error()
	}
	// call sites
	for _, f := range files {
		af := byName[f.Name]
		var names []string
		if af != nil {
			for _, d := range af.Decls {
				fd, ok := d.(*ast.FuncDecl)
				if !ok || !regexp.MustCompile(`^Wrap\d+$`).MatchString(fd.Name.Name) {
					continue
				}
				ast.Inspect(fd.Body, func(n ast.Node) bool {
					call, ok := n.(*ast.CallExpr)
					if !ok {
						return true
					}
					id, ok := call.Fun.(*ast.Ident)
					if !ok {
						return true
					}
					if id.Name == "append" || id.Name == "panic" || id.Name == "len" || id.Name == "copy" {
						return true // the builtin a call site is wrapped in
					}
					names = append(names, id.Name)
					if obs.TypeErr == "" {
						if why := checkCall(fset, info, call, id); why != "" {
							obs.CallsBad = append(obs.CallsBad, fd.Name.Name+": "+why)
						}
					}
					return true
				})
			}
		}
		obs.Names = append(obs.Names, names)
	}
	// generated functions
	if df := byName["derived.gen.go"]; df != nil {
		for _, d := range df.Decls {
			fd, ok := d.(*ast.FuncDecl)
			if !ok || fd.Recv != nil {
				continue
			}
			fn := Func{Name: fd.Name.Name}
			for _, p := range fd.Type.Params.List {
				ts := exprString(fset, p.Type)
				n := len(p.Names)
				if n == 0 {
					n = 1
				}
				for i := 0; i < n; i++ {
					fn.Params = append(fn.Params, ts)
				}
			}
			if fd.Type.Results != nil {
				var rs []string
				for _, r := range fd.Type.Results.List {
					rs = append(rs, exprString(fset, r.Type))
				}
				fn.Result = strings.Join(rs, ",")
			}
			obs.Funcs = append(obs.Funcs, fn)
		}
		if c.KeepDerived {
			b, _ := os.ReadFile(filepath.Join(pdir, "derived.gen.go"))
			obs.Derived = string(b)
			obs.Canon = canonical(fset, df)
		}
	}
}

// readBack2: the second package of the invocation: parsed, type-checked, canonical form appended.
func readBack2(obs *Obs, c *Case, qdir string) {
	fset := token.NewFileSet()
	var asts []*ast.File
	var df *ast.File
	ents, _ := os.ReadDir(qdir)
	for _, e := range ents {
		if !strings.HasSuffix(e.Name(), ".go") {
			continue
		}
		f, err := parser.ParseFile(fset, filepath.Join(qdir, e.Name()), nil, parser.ParseComments)
		if err != nil {
			if obs.TypeErr == "" {
				obs.TypeErr = "parse: " + err.Error()
			}
			return
		}
		asts = append(asts, f)
		if e.Name() == "derived.gen.go" {
			df = f
		}
	}
	var firstErr error
	conf := types.Config{Importer: importer.ForCompiler(fset, "source", nil), Error: func(err error) {
		if firstErr == nil {
			firstErr = err
		}
	}}
	_, _ = conf.Check("t/q", fset, asts, nil)
	if firstErr != nil && obs.TypeErr == "" {
		obs.TypeErr = firstErr.Error()
	}
	if df == nil {
		if obs.TypeErr == "" {
			obs.TypeErr = "second package q: no derived.gen.go"
		}
		return
	}
	if c.KeepDerived {
		b, _ := os.ReadFile(filepath.Join(qdir, "derived.gen.go"))
		obs.Derived += "\n// ---- package q\n" + string(b)
		obs.Canon = append(append(obs.Canon, "---- package q"), canonical(fset, df)...)
	}
}

type localImporter struct {
	pkgs     map[string]*types.Package
	fallback types.Importer
}

func (l localImporter) Import(path string) (*types.Package, error) {
	if p, ok := l.pkgs[path]; ok {
		return p, nil
	}
	return l.fallback.Import(path)
}

func exprString(fset *token.FileSet, e ast.Expr) string {
	var b bytes.Buffer
	printer.Fprint(&b, fset, e)
	return strings.Join(strings.Fields(b.String()), " ")
}

// checkCall: the callee must be a function declared in derived.gen.go whose parameter types are
// identical to the types of the arguments.
func checkCall(fset *token.FileSet, info *types.Info, call *ast.CallExpr, id *ast.Ident) string {
	obj := info.Uses[id]
	fn, ok := obj.(*types.Func)
	if !ok {
		return fmt.Sprintf("%s is not a function", id.Name)
	}
	if filepath.Base(fset.File(fn.Pos()).Name()) != "derived.gen.go" {
		return fmt.Sprintf("%s is not declared in derived.gen.go", id.Name)
	}
	sig := fn.Type().(*types.Signature)
	if sig.Params().Len() != len(call.Args) {
		return fmt.Sprintf("%s: arity", id.Name)
	}
	for i, a := range call.Args {
		at := info.Types[a].Type
		if at == nil || !types.Identical(types.Default(at), sig.Params().At(i).Type()) {
			return fmt.Sprintf("%s: parameter %d is %s, argument is %v", id.Name, i, sig.Params().At(i).Type(), at)
		}
	}
	return ""
}

// canonical: every top-level function of the derived file, with comments dropped and every
// reference to a derived function replaced by a name made of that function's signature (parameter
// names and types, results), as sorted text. Two outputs with the same canonical form contain the same
// functions up to the choice of function names.
func canonical(fset *token.FileSet, f *ast.File) []string {
	sigOf := map[string]string{}
	for _, d := range f.Decls {
		if fd, ok := d.(*ast.FuncDecl); ok && fd.Recv == nil {
			var b bytes.Buffer
			printer.Fprint(&b, fset, fd.Type)
			sigOf[fd.Name.Name] = "F<" + strings.Join(strings.Fields(b.String()), " ") + ">"
		}
	}
	var out []string
	for _, d := range f.Decls {
		fd, ok := d.(*ast.FuncDecl)
		if !ok {
			var b bytes.Buffer
			printer.Fprint(&b, fset, d)
			out = append(out, b.String())
			continue
		}
		fd.Doc = nil
		ast.Inspect(fd, func(n ast.Node) bool {
			if id, ok := n.(*ast.Ident); ok {
				if s, ok := sigOf[id.Name]; ok && (id.Obj == nil || id.Obj.Kind == ast.Fun) {
					id.Name = s
				}
			}
			return true
		})
		var b bytes.Buffer
		printer.Fprint(&b, fset, fd)
		out = append(out, b.String())
	}
	sort.Strings(out)
	return out
}
