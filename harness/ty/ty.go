// Package ty is the Go mirror of the Lean universe (GoderiveModel/U): types, declarations and
// heap-annotated values, with the wire (S-expression) printer and a Go source printer.
package ty

import (
	"fmt"
	"strings"
)

type Kind int

const (
	Basic Kind = iota
	Named
	Ptr
	Slice
	Array
	Map
	Struct
	Chan
	Func
	Iface
)

type Field struct {
	Name     string
	Embedded bool
	T        *Ty
}

type Ty struct {
	K      Kind
	B      string // basic: Go spelling (bool,int,int8,...,string)
	N      int    // named: index into Env.Decls; array: length
	Elem   *Ty    // ptr, slice, array, map value, chan
	Key    *Ty    // map key
	Fields []Field
	// Blanks[i] is the Go type of a blank `_` field declared just before Fields[i] (i = len(Fields):
	// after the last one). Blank fields exist in the Go source only: generated code, the wire form and
	// the model all see the struct without them.
	Blanks map[int]string
}

type Decl struct {
	Name    string // Go identifier
	Pkg     string // "" = corpus package p, otherwise package name (ext, ext2/ext …)
	Under   *Ty
	Priv    bool // has unexported fields
	Methods string
	Src     string // when set: the Go declaration as it is written in the corpus package (e.g. an alias of a generic instance); Under is its structure
}

type Env struct{ Decls []*Decl }

func B(name string) *Ty          { return &Ty{K: Basic, B: name} }
func N(i int) *Ty                { return &Ty{K: Named, N: i} }
func P(t *Ty) *Ty                { return &Ty{K: Ptr, Elem: t} }
func Sl(t *Ty) *Ty               { return &Ty{K: Slice, Elem: t} }
func Ar(n int, t *Ty) *Ty        { return &Ty{K: Array, N: n, Elem: t} }
func M(k, v *Ty) *Ty             { return &Ty{K: Map, Key: k, Elem: v} }
func St(fs ...Field) *Ty         { return &Ty{K: Struct, Fields: fs} }
func Ch(t *Ty) *Ty               { return &Ty{K: Chan, Elem: t} }
func F(name string, t *Ty) Field { return Field{Name: name, T: t} }

var wireBasic = map[string]string{
	"bool": "bool", "int": "int", "int8": "i8", "int16": "i16", "int32": "i32", "int64": "i64",
	"uint": "uint", "uint8": "u8", "uint16": "u16", "uint32": "u32", "uint64": "u64", "uintptr": "uintptr",
	"float32": "f32", "float64": "f64", "complex64": "c64", "complex128": "c128", "string": "string",
	"byte": "u8", "rune": "i32",
}

// Wire prints the type in the wire format understood by the Lean driver.
func (t *Ty) Wire() string {
	switch t.K {
	case Basic:
		return wireBasic[t.B]
	case Named:
		return fmt.Sprintf("(n %d)", t.N)
	case Ptr:
		return "(p " + t.Elem.Wire() + ")"
	case Slice:
		return "(sl " + t.Elem.Wire() + ")"
	case Array:
		return fmt.Sprintf("(ar %d %s)", t.N, t.Elem.Wire())
	case Map:
		return "(m " + t.Key.Wire() + " " + t.Elem.Wire() + ")"
	case Struct:
		var sb strings.Builder
		sb.WriteString("(st")
		for _, f := range t.Fields {
			sb.WriteString(" " + f.T.Wire())
		}
		sb.WriteString(")")
		return sb.String()
	case Chan:
		return "(ch " + t.Elem.Wire() + ")"
	case Func:
		return "func"
	case Iface:
		return "iface"
	}
	panic("bad kind")
}

// Go prints the type as Go source as seen from package `from` ("" = the corpus package p,
// "main" = a package that imports p as p and the external packages by their names).
func (t *Ty) Go(env *Env, from string) string {
	switch t.K {
	case Basic:
		return t.B
	case Named:
		d := env.Decls[t.N]
		if d.Pkg == from || (d.Pkg == "" && from == "") {
			return d.Name
		}
		if d.Pkg == "" {
			return "p." + d.Name
		}
		return d.Pkg + "." + d.Name
	case Ptr:
		return "*" + t.Elem.Go(env, from)
	case Slice:
		return "[]" + t.Elem.Go(env, from)
	case Array:
		return fmt.Sprintf("[%d]%s", t.N, t.Elem.Go(env, from))
	case Map:
		return "map[" + t.Key.Go(env, from) + "]" + t.Elem.Go(env, from)
	case Struct:
		var sb strings.Builder
		sb.WriteString("struct {")
		for i, f := range t.Fields {
			if i > 0 {
				sb.WriteString("; ")
			} else {
				sb.WriteString(" ")
			}
			if bt, ok := t.Blanks[i]; ok {
				sb.WriteString("_ " + bt + "; ")
			}
			if f.Embedded {
				sb.WriteString(f.T.Go(env, from))
			} else {
				sb.WriteString(f.Name + " " + f.T.Go(env, from))
			}
		}
		if bt, ok := t.Blanks[len(t.Fields)]; ok && len(t.Fields) > 0 {
			sb.WriteString("; _ " + bt)
		}
		if len(t.Fields) > 0 {
			sb.WriteString(" ")
		}
		sb.WriteString("}")
		return sb.String()
	case Chan:
		return "chan " + t.Elem.Go(env, from)
	case Func:
		return "func()"
	case Iface:
		return "interface{}"
	}
	panic("bad kind")
}

// Under resolves a named type.
func (e *Env) Under(t *Ty) *Ty {
	if t.K == Named {
		return e.Decls[t.N].Under
	}
	return t
}

// CanEqual mirrors canEqual of plugin/equal (pointer-free comparable types).
func (e *Env) CanEqual(t *Ty) bool {
	u := e.Under(t)
	switch u.K {
	case Basic:
		return true
	case Struct:
		for _, f := range u.Fields {
			if !e.CanEqual(f.T) {
				return false
			}
		}
		return true
	case Array:
		return e.CanEqual(u.Elem)
	}
	return false
}

// UsesPkgs lists external package names used by the type.
func (t *Ty) UsesPkgs(env *Env, acc map[string]bool) {
	switch t.K {
	case Named:
		if p := env.Decls[t.N].Pkg; p != "" {
			acc[p] = true
		}
	case Ptr, Slice, Array, Chan:
		t.Elem.UsesPkgs(env, acc)
	case Map:
		t.Key.UsesPkgs(env, acc)
		t.Elem.UsesPkgs(env, acc)
	case Struct:
		for _, f := range t.Fields {
			f.T.UsesPkgs(env, acc)
		}
	}
}

// ---- values ----

type VK int

const (
	VBool VK = iota
	VInt
	VFlt
	VCplx
	VStr
	VNil
	VPtr
	VSlice
	VArr
	VStruct
	VMap
)

type Val struct {
	K     VK
	Bool  bool
	Int   string // decimal, arbitrary width
	W     int    // float / complex component width
	Bits  uint64 // float bits / complex real bits
	Bits2 uint64 // complex imaginary bits
	Str   []byte
	Addr  int
	Spare int
	Elems []*Val // ptr: 1 element; slice/arr/struct: elements; map: k0,v0,k1,v1,…
}

func (v *Val) Wire() string {
	var sb strings.Builder
	v.wire(&sb)
	return sb.String()
}

func (v *Val) wire(sb *strings.Builder) {
	switch v.K {
	case VBool:
		if v.Bool {
			sb.WriteString("(b 1)")
		} else {
			sb.WriteString("(b 0)")
		}
	case VInt:
		sb.WriteString("(i " + v.Int + ")")
	case VFlt:
		fmt.Fprintf(sb, "(f %d %d)", v.W, v.Bits)
	case VCplx:
		fmt.Fprintf(sb, "(c %d %d %d)", v.W, v.Bits, v.Bits2)
	case VStr:
		if len(v.Str) == 0 {
			sb.WriteString("(s)")
		} else {
			fmt.Fprintf(sb, "(s %x)", v.Str)
		}
	case VNil:
		sb.WriteString("nil")
	case VPtr:
		fmt.Fprintf(sb, "(p %d ", v.Addr)
		v.Elems[0].wire(sb)
		sb.WriteString(")")
	case VSlice:
		fmt.Fprintf(sb, "(sl %d %d", v.Addr, v.Spare)
		for _, e := range v.Elems {
			sb.WriteString(" ")
			e.wire(sb)
		}
		sb.WriteString(")")
	case VArr, VStruct:
		if v.K == VArr {
			sb.WriteString("(ar")
		} else {
			sb.WriteString("(st")
		}
		for _, e := range v.Elems {
			sb.WriteString(" ")
			e.wire(sb)
		}
		sb.WriteString(")")
	case VMap:
		fmt.Fprintf(sb, "(m %d", v.Addr)
		for i := 0; i+1 < len(v.Elems); i += 2 {
			sb.WriteString(" (")
			v.Elems[i].wire(sb)
			sb.WriteString(" ")
			v.Elems[i+1].wire(sb)
			sb.WriteString(")")
		}
		sb.WriteString(")")
	}
}

// Clone returns a deep copy of the value tree (same address ids).
func (v *Val) Clone() *Val {
	c := *v
	if v.Str != nil {
		c.Str = append([]byte(nil), v.Str...)
	}
	if v.Elems != nil {
		c.Elems = make([]*Val, len(v.Elems))
		for i, e := range v.Elems {
			c.Elems[i] = e.Clone()
		}
	}
	return &c
}
